//! C08 — connection behaviour is independent of segmentation and completion timing.
//! Every variant of a scenario (client frames cut at every offset, bytes one at a time, backend
//! completions and keep-alive ticks landing inside a half-received or half-sent frame, hostile read
//! chunking and write acceptance) must produce the observable trace of its unsegmented baseline.

use crate::mk::{self, AUTH_KEY, SESSION_KEY, facts};
use crate::scenario::*;
use serde_json::{Value, json};
use std::time::Duration;
use vp_common::refcodec::Pkt;
use vp_common::report::par_map;
use vp_common::{Cli, Report, Rng, Tier};
use vp_sim::client::{Act, Echo, Out};
use vp_sim::recadapters::StrategyScript;
use vp_sim::simnet::{ReadPlan, WritePlan};

const MS: u64 = 1_000_000;

/// Observable trace: clientbound packets (Keep Alives projected out, per-connection nonces
/// masked), adapter calls with arguments, result kind.
fn trace(run: &Run) -> Vec<String> {
    let mut out = vec![];
    for r in &run.client.received {
        match &r.pkt {
            Ok(Pkt::ConfKeepAliveOut { .. }) => {}
            Ok(Pkt::EncryptionRequest { server_id, public_key, should_authenticate, .. }) => {
                out.push(format!("EncryptionRequest(server_id={server_id:?}, key={} bytes, should_authenticate={should_authenticate})", public_key.len()))
            }
            Ok(Pkt::StoreCookie { key, payload }) if key == SESSION_KEY => {
                let j: Value = serde_json::from_slice(payload).unwrap_or(Value::Null);
                out.push(format!("StoreCookie(session, host={}, port={})", j["server_address"], j["server_port"]));
            }
            Ok(Pkt::StoreCookie { key, payload }) if key == AUTH_KEY => {
                let mut j: Value = payload.get(32..).and_then(|b| serde_json::from_slice(b).ok()).unwrap_or(Value::Null);
                if let Some(o) = j.as_object_mut() {
                    o.remove("timestamp");
                }
                out.push(format!("StoreCookie(auth, {j})"));
            }
            Ok(p) => out.push(format!("{p:?}")),
            Err(e) => out.push(format!("undecodable(id={}, {e})", r.id)),
        }
    }
    for c in &run.calls {
        out.push(format!("call {:?}", c.call));
    }
    out.push(format!("result {}", run.result.kind()));
    out
}

#[derive(Clone, Debug)]
struct Case {
    class: String,
    /// signature shape: family / racing event / frame class
    shape: String,
    base: Scenario,
    variant: Scenario,
}

fn frame_class(label: &str) -> &str {
    label.split('#').next().unwrap_or(label)
}

struct BaseSpec {
    name: &'static str,
    intent: Intent,
    secret: bool,
    lat: [u64; 3],
    /// extra tolerated frames the client sends at these virtual ms after Client Information
    extras: Vec<(u64, Pkt)>,
    no_target: bool,
    ci_delay_ms: u64,
}

fn plugin_message(n: usize) -> Pkt {
    let mut raw = b"\x0fminecraft:brand".to_vec();
    raw.extend((0..n).map(|i| b'a' + (i % 26) as u8));
    Pkt::ConfPluginMessageIn { raw }
}

fn build_base(spec: &BaseSpec, seed: u64) -> Scenario {
    let mut rng = Rng::new(seed);
    let claimed = mk::ident(&mut rng, "claimed");
    let authed = mk::ident(&mut rng, "vouched");
    let p = ScriptParams { intent: spec.intent, address: "seg.example.org", port: 25565, protocol: 770, claimed: &claimed, locale: "en_us", ping_payload: rng.u64(), client_info_delay: Duration::from_millis(spec.ci_delay_ms) };
    let mut plan = default_plan(&p, mk::secret16(&mut rng));
    plan.cookies = vec![(AUTH_KEY.to_string(), None)];
    if !spec.extras.is_empty() {
        // insert after Client Information, timed relative to the start of the connection
        let pos = plan.script.iter().position(|a| matches!(a, Act::Send { label, .. } if label == "ClientInformation")).map(|p| p + 1).unwrap_or(plan.script.len() - 1);
        let mut ins = vec![];
        for (i, (at_ms, pkt)) in spec.extras.iter().enumerate() {
            ins.push(Act::SleepUntil(Duration::from_millis(spec.ci_delay_ms + *at_ms)));
            ins.push(Act::Send { label: format!("Extra{}#{i}", pkt.name()), out: Out::Pkt(pkt.clone()) });
        }
        plan.script.splice(pos..pos, ins);
    }
    plan.deadline = Duration::from_secs(400);
    let targets = if spec.no_target { vec![] } else { mk::targets(&mut rng, 3) };
    let mut adapters = mk::routing_adapters(Some((&authed, &mk::props(&mut rng, 1))), targets);
    adapters.strategy = StrategyScript::Position(1);
    adapters.discovery_latency = Duration::from_millis(spec.lat[0]);
    adapters.filter_latency = Duration::from_millis(spec.lat[1]);
    adapters.strategy_latency = Duration::from_millis(spec.lat[2]);
    let cfg = ServerCfg { secret: if spec.secret { Some(b"segmentation-secret".to_vec()) } else { None }, ..Default::default() };
    default_scenario(spec.name, plan, adapters, cfg)
}

fn bases() -> Vec<BaseSpec> {
    vec![
        BaseSpec { name: "status", intent: Intent::Status, secret: false, lat: [0, 0, 0], extras: vec![], no_target: false, ci_delay_ms: 0 },
        BaseSpec { name: "login-fast", intent: Intent::Login, secret: true, lat: [0, 0, 0], extras: vec![], no_target: false, ci_delay_ms: 0 },
        BaseSpec { name: "login-slow-routing", intent: Intent::Login, secret: true, lat: [20_000, 20_000, 20_000], extras: vec![(5_000, plugin_message(4)), (25_000, Pkt::ResourcePackResponse { uuid: 7, result: 3 }), (45_000, plugin_message(300))], no_target: false, ci_delay_ms: 0 },
        BaseSpec { name: "transfer-late-client-information", intent: Intent::Transfer, secret: true, lat: [1_000, 0, 18_000], extras: vec![], no_target: false, ci_delay_ms: 20_000 },
        BaseSpec { name: "login-no-target", intent: Intent::Login, secret: false, lat: [17_000, 0, 0], extras: vec![(1_000, Pkt::ConfCookieResponse { raw: vec![1, b'k', 0] })], no_target: true, ci_delay_ms: 0 },
    ]
}

fn with_split(base: &Scenario, index: usize, cuts: Vec<(usize, Duration)>) -> Scenario {
    let mut v = base.clone();
    v.client.seg.splits.push((index, cuts));
    v
}

fn generate(cli: &Cli) -> (Vec<Case>, Vec<String>) {
    let mut cases = vec![];
    let mut problems = vec![];
    let quick = cli.tier == Tier::Quick;
    for (bi, spec) in bases().iter().enumerate() {
        let base = build_base(spec, cli.seed.wrapping_mul(31).wrapping_add(bi as u64));
        let brun = run(&base);
        // F1: every split offset of every client frame, two segments with a short pause
        for s in &brun.client.sent {
            let stride = if quick && s.plain.len() > 40 { 7 } else { 1 };
            let start = if stride > 1 { 1 + (cli.seed as usize % stride) } else { 1 };
            let mut offs: Vec<usize> = (start..s.plain.len()).step_by(stride).collect();
            for o in [1, 2, 3, s.plain.len() - 1] {
                if o >= 1 && o < s.plain.len() && !offs.contains(&o) {
                    offs.push(o);
                }
            }
            for o in offs {
                cases.push(Case {
                    class: format!("{}/split/{}@{o}", spec.name, s.label),
                    shape: format!("read/split-no-race/{}", frame_class(&s.label)),
                    base: base.clone(),
                    variant: with_split(&base, s.index, vec![(o, Duration::from_millis(1))]),
                });
            }
        }
        // F2: one byte at a time
        let mut v = base.clone();
        v.client.seg.byte_pause = Some(Duration::from_micros(100));
        cases.push(Case { class: format!("{}/byte-at-a-time", spec.name), shape: "read/byte-at-a-time/all".into(), base: base.clone(), variant: v });
        // F3: hostile read chunking and write acceptance on the server side, no racing event
        let read_plans = [
            ReadPlan { chunks: vec![1], pending: vec![] },
            ReadPlan { chunks: vec![2], pending: vec![true, false] },
            ReadPlan { chunks: vec![1, 3, 7], pending: vec![true, true, false] },
            ReadPlan { chunks: vec![64], pending: vec![false, true] },
        ];
        for (i, rp) in read_plans.iter().enumerate() {
            let mut v = base.clone();
            v.read_plan = rp.clone();
            cases.push(Case { class: format!("{}/read-plan-{i}", spec.name), shape: "read/chunked-reads/all".into(), base: base.clone(), variant: v });
        }
        let write_plans = [
            WritePlan { steps: vec![Some(1)], stalls: vec![] },
            WritePlan { steps: vec![Some(2), None], stalls: vec![] },
            WritePlan { steps: vec![None, Some(5), Some(1)], stalls: vec![] },
            WritePlan { steps: vec![Some(3), None, None, Some(7)], stalls: vec![] },
        ];
        for (i, wp) in write_plans.iter().enumerate() {
            let mut v = base.clone();
            v.write_plan = wp.clone();
            cases.push(Case { class: format!("{}/write-plan-{i}", spec.name), shape: "write/partial-accept-no-race/all".into(), base: base.clone(), variant: v });
        }
        // stalls in the middle of every clientbound frame (slow socket, no race)
        let mut off = 0usize;
        for r in &brun.client.received {
            let name = r.pkt.as_ref().map(|p| p.name()).unwrap_or("Undecodable");
            for k in [1usize, r.frame_len / 2, r.frame_len - 1] {
                if k == 0 || k >= r.frame_len {
                    continue;
                }
                let mut v = base.clone();
                v.write_plan = WritePlan { steps: vec![], stalls: vec![(off + k, Duration::from_millis(300))] };
                cases.push(Case { class: format!("{}/write-stall/{name}@{k}", spec.name), shape: format!("write/stall-no-race/{name}"), base: base.clone(), variant: v });
            }
            off += r.frame_len;
        }
    }

    // F9: a client frame that stalls for one or more keep-alive periods in the middle (a mobile
    // client in a tunnel): whatever ticks were missed meanwhile, the connection goes on afterwards
    {
        let spec = BaseSpec { name: "long-stall", intent: Intent::Login, secret: true, lat: [100_000, 0, 0], extras: vec![(3_000, plugin_message(40)), (60_000, Pkt::ResourcePackResponse { uuid: 5, result: 0 })], no_target: false, ci_delay_ms: 0 };
        let base = build_base(&spec, cli.seed ^ 0xfa);
        let brun = run(&base);
        for s in brun.client.sent.iter().filter(|s| s.label.starts_with("Extra")) {
            for stall_s in [17u64, 20, 33, 40] {
                for o in [1usize, 2, s.plain.len() / 2, s.plain.len() - 1] {
                    if o >= 1 && o < s.plain.len() {
                        cases.push(Case {
                            class: format!("long-stall/{}@{o}/{stall_s}s", s.label),
                            shape: format!("read/stall-of-keep-alive-periods-inside-frame/{}", frame_class(&s.label)),
                            base: base.clone(),
                            variant: with_split(&base, s.index, vec![(o, Duration::from_secs(stall_s))]),
                        });
                    }
                }
            }
        }
    }

    let frames: Vec<(&str, Pkt)> = vec![
        ("PluginMessageSmall", plugin_message(4)),
        ("PluginMessageBig", plugin_message(300)),
        ("ResourcePackResponse", Pkt::ResourcePackResponse { uuid: 99, result: 0 }),
        ("ConfCookieResponse", Pkt::ConfCookieResponse { raw: vec![1, b'k', 0] }),
        ("ClientInformationAgain", client_information("de_de")),
    ];
    // F13: the configured maximum is a limit per frame, not per read: a handshake that is exactly as
    // long as the maximum allows, with the status request and the ping right behind it in the same
    // segment, is answered like the same frames sent one by one
    {
        let spec = BaseSpec { name: "status-tight-maximum", intent: Intent::Status, secret: false, lat: [0, 0, 0], extras: vec![], no_target: false, ci_delay_ms: 0 };
        let mut base = build_base(&spec, cli.seed ^ 0xfe);
        let probe = run(&base);
        if let Some(hs) = probe.client.sent.first() {
            // declared length of the handshake frame = frame minus its (1-byte) length prefix
            let declared = hs.plain.len() as i32 - 1;
            base.cfg.max_frame = Some(declared);
            let mut v = base.clone();
            v.client.script.retain(|a| !matches!(a, Act::AwaitPkt { .. }));
            for (ri, rp) in [ReadPlan::default(), ReadPlan { chunks: vec![4096], pending: vec![] }].into_iter().enumerate() {
                let mut v = v.clone();
                v.read_plan = rp;
                cases.push(Case { class: format!("status-tight-maximum/pipelined/read-plan-{ri}"), shape: "read/pipelined-client/frame-as-long-as-the-maximum".into(), base: base.clone(), variant: v });
            }
        }
    }
    // F12: the *timeout Disconnect* half written when discovery completes (a client that neither echoes
    // nor reads): the client is sent the same packets as when the write goes through at once. Only the
    // clientbound side is compared: which backend calls were still made is a matter of timing here.
    // (the same with the selection - the last step, after which nothing is received any more - as the
    // call that completes meanwhile)
    for (stage, lat) in [("discovery", [33_000, 0, 5_000]), ("filter", [10_000, 23_000, 0]), ("selection", [0, 0, 33_000])] {
        let spec = BaseSpec { name: "silent-client", intent: Intent::Login, secret: true, lat, extras: vec![], no_target: false, ci_delay_ms: 0 };
        let mut base = build_base(&spec, cli.seed ^ 0xfd);
        base.client.echo = Echo::Never;
        let brun = run(&base);
        let off: usize = brun.client.received.iter().take_while(|r| !matches!(r.pkt, Ok(Pkt::ConfDisconnect { .. }))).map(|r| r.frame_len).sum();
        match brun.client.received.iter().find(|r| matches!(r.pkt, Ok(Pkt::ConfDisconnect { .. }))) {
            Some(d) => {
                for k in (1..d.frame_len).step_by(if quick { 3 } else { 1 }) {
                    let mut v = base.clone();
                    v.write_plan = WritePlan { steps: vec![], stalls: vec![(off + k, Duration::from_secs(2))] };
                    cases.push(Case { class: format!("race/{stage}-completes-while-timeout-disconnect-half-written@{k}"), shape: format!("write/clientbound-only/{stage}-completes-inside-frame/TimeoutDisconnect"), base: base.clone(), variant: v });
                }
            }
            None => problems.push("silent-client base: no timeout Disconnect in the baseline".into()),
        }
    }
    // F15: a status service that takes its time, and a client that sends its Ping without waiting
    // for the Status Response, in a segment of its own that arrives while the service is still
    // asked: same Status Response, same Pong as for the client that waits
    {
        let spec = BaseSpec { name: "status-slow-service", intent: Intent::Status, secret: false, lat: [0, 0, 0], extras: vec![], no_target: false, ci_delay_ms: 0 };
        let mut base = build_base(&spec, cli.seed ^ 0xf15);
        base.adapters.status_latency = Duration::from_secs(2);
        for gap_ms in [0u64, 1, 500, 1_900] {
            let mut v = base.clone();
            let mut script = vec![];
            for a in &base.client.script {
                match a {
                    Act::AwaitPkt { .. } => {}
                    Act::Send { label, .. } if label == "StatusPing" => {
                        script.push(Act::Sleep(Duration::from_millis(gap_ms)));
                        script.push(a.clone());
                    }
                    other => script.push(other.clone()),
                }
            }
            v.client.script = script;
            cases.push(Case { class: format!("status-slow-service/ping-{gap_ms}ms-behind-the-request"), shape: "read/pipelined-client/ping-while-status-service-is-asked".into(), base: base.clone(), variant: v });
        }
    }

    // F14: the transport delays Client Information by more than one or two keep-alive periods while
    // the client goes on echoing: the same frames, only later, lead to the same calls and the same
    // Transfer as when it arrives at once
    for delay_s in [17u64, 20, 33, 50] {
        for (bname, lat) in [("routing-20s", [1_000u64, 0, 19_000]), ("routing-40s", [20_000, 0, 20_000])] {
            let mk_spec = |ci_delay_ms: u64| BaseSpec { name: "delayed-client-information", intent: Intent::Login, secret: true, lat, extras: vec![(500, plugin_message(4))], no_target: false, ci_delay_ms };
            let base = build_base(&mk_spec(0), cli.seed ^ 0xf14);
            let variant = build_base(&mk_spec(delay_s * 1000), cli.seed ^ 0xf14);
            cases.push(Case { class: format!("client-information-delayed/{bname}/{delay_s}s"), shape: "read/frame-delayed-by-keep-alive-periods/ClientInformation".into(), base, variant });
        }
    }

    // F16: a silent client whose transport does not take the first byte of a Keep Alive at once (k = 0)
    // or takes it in two parts, while a routing step completes in between and the next one outlasts
    // the next tick: it is sent as many Keep Alives before the timeout Disconnect as the client whose
    // transport takes everything at once
    {
        let spec = BaseSpec { name: "silent-client-slow-keep-alive", intent: Intent::Login, secret: true, lat: [17_000, 0, 40_000], extras: vec![], no_target: false, ci_delay_ms: 0 };
        let mut base = build_base(&spec, cli.seed ^ 0xf16);
        base.client.echo = Echo::Never;
        let brun = run(&base);
        let off: usize = brun.client.received.iter().take_while(|r| !matches!(r.pkt, Ok(Pkt::ConfKeepAliveOut { .. }))).map(|r| r.frame_len).sum();
        if brun.client.first("ConfKeepAliveOut").is_some() {
            for k in [0usize, 1, 5] {
                let mut v = base.clone();
                v.write_plan = WritePlan { steps: vec![], stalls: vec![(off + k, Duration::from_secs(2))] };
                cases.push(Case { class: format!("race/discovery-completes-while-keep-alive-not-yet-taken@{k}/silent-client"), shape: "write/clientbound-only/keep-alive-count/discovery-completes-inside-frame/KeepAlive".into(), base: base.clone(), variant: v });
            }
        } else {
            problems.push("silent-client-slow-keep-alive base: no Keep Alive in the baseline".into());
        }
    }

    // F11: frames whose announced length has zero low bits (128, 256, 16384: prefixes 80 01, 80 02,
    // 80 80 01) cut inside the length prefix: the first prefix byte(s) alone look like "length 0"
    for body in [128usize, 256, 384, 16_384] {
        let spec = BaseSpec { name: "round-length", intent: Intent::Login, secret: true, lat: [5_000, 0, 0], extras: vec![(1_000, plugin_message(body - 17))], no_target: false, ci_delay_ms: 0 };
        let base = build_base(&spec, cli.seed ^ 0xfc);
        let brun = run(&base);
        match brun.client.sent.iter().find(|s| s.label.starts_with("Extra")) {
            Some(s) => {
                for o in [1usize, 2, 3, 4] {
                    cases.push(Case {
                        class: format!("round-length/{body}@{o}"),
                        shape: "read/cut-inside-length-prefix/round-length".into(),
                        base: base.clone(),
                        variant: with_split(&base, s.index, vec![(o, Duration::from_millis(200))]),
                    });
                }
            }
            None => problems.push(format!("round-length base {body}: the extra frame was not sent")),
        }
    }
    // F10: the transport delays a whole tolerated frame until routing is over (it is then never
    // read): same outcome as when it arrives in the middle of a backend call
    for (fname, pkt) in &frames {
        for at_ms in [1_000u64, 3_000, 5_000] {
            let spec = BaseSpec { name: "delayed-frame", intent: Intent::Login, secret: true, lat: [2_000, 2_000, 2_000], extras: vec![(at_ms, pkt.clone())], no_target: false, ci_delay_ms: 0 };
            let base = build_base(&spec, cli.seed ^ 0xfb);
            let late = BaseSpec { name: "delayed-frame", intent: Intent::Login, secret: true, lat: [2_000, 2_000, 2_000], extras: vec![(9_000, pkt.clone())], no_target: false, ci_delay_ms: 0 };
            let variant = build_base(&late, cli.seed ^ 0xfb);
            cases.push(Case { class: format!("delayed-frame/{fname}/during-stage-at-{at_ms}ms-vs-after-routing"), shape: format!("read/frame-delayed-past-routing/{fname}"), base, variant });
        }
    }

    // F8: a client that pipelines instead of waiting for replies (frames coalesce in the socket
    // buffer, also across the switch to encryption): same trace as the reactive client
    for (bi, spec) in bases().iter().enumerate() {
        let base = build_base(spec, cli.seed.wrapping_mul(37).wrapping_add(bi as u64));
        for keep_login_success_wait in [false, true] {
            let mut v = base.clone();
            v.client.script.retain(|a| match a {
                Act::AwaitPkt { name, .. } => *name == "EncryptionRequest" || (keep_login_success_wait && *name == "LoginSuccess"),
                _ => true,
            });
            for (ri, rp) in [ReadPlan::default(), ReadPlan { chunks: vec![3], pending: vec![] }, ReadPlan { chunks: vec![500], pending: vec![true, false] }].into_iter().enumerate() {
                let mut v = v.clone();
                v.read_plan = rp;
                cases.push(Case {
                    class: format!("{}/pipelined{}/read-plan-{ri}", spec.name, if keep_login_success_wait { "-after-login" } else { "" }),
                    shape: "read/pipelined-client/all".into(),
                    base: base.clone(),
                    variant: v,
                });
            }
        }
    }

    // F4: a backend completion lands between the two segments of a configuration-phase frame
    for stage in 0..3usize {
        let stage_name = ["discovery", "filter", "strategy"][stage];
        for (fname, pkt) in &frames {
            // completion times: 2 s, 4 s, 6 s after Client Information (sent at t = 0)
            let completion_ms = 2_000 * (stage as u64 + 1);
            // after a race in discovery or filtering the connection goes on waiting for two more
            // keep-alive periods: a frame that was swallowed or a stream that lost its framing shows
            // up as a missed echo (timeout Disconnect instead of the Transfer)
            let lat = if stage < 2 { [2_000, 2_000, 40_000] } else { [2_000, 2_000, 2_000] };
            // a later, complete frame: if the raced frame lost bytes the stream is misaligned and
            // this one is misparsed (error instead of the Transfer)
            let follow_up = Pkt::ResourcePackResponse { uuid: 0x0102_0304_0506_0708_090a_0b0c_0d0e_0f10, result: 3 };
            let spec = BaseSpec { name: "race", intent: Intent::Login, secret: true, lat, extras: vec![(completion_ms - 100, pkt.clone()), (completion_ms + 1_000, follow_up.clone())], no_target: false, ci_delay_ms: 0 };
            let base = build_base(&spec, cli.seed ^ 0xf4 ^ (stage as u64) << 8);
            let brun = run(&base);
            let Some(sent) = brun.client.sent.iter().find(|s| s.label.starts_with("Extra")) else {
                problems.push(format!("race base {stage_name}/{fname}: extra frame was not sent"));
                continue;
            };
            let len = sent.plain.len();
            let stride = if quick && len > 24 { 9 } else { 1 };
            let mut offs: Vec<usize> = (1..len).step_by(stride).collect();
            for o in [1, 2, len - 1] {
                if o < len && !offs.contains(&o) {
                    offs.push(o);
                }
            }
            for o in offs {
                cases.push(Case {
                    class: format!("race/{stage_name}-completes-inside/{fname}@{o}"),
                    shape: format!("read/{stage_name}-completes-inside-frame/{fname}"),
                    base: base.clone(),
                    variant: with_split(&base, sent.index, vec![(o, Duration::from_millis(200))]),
                });
            }
            // the last step completes inside the frame and the rest of the frame comes much later (or
            // never): routing is over, the Transfer does not wait for bytes nobody needs any more
            if stage == 2 {
                for o in [1usize, 2, len / 2, len - 1] {
                    if o >= 1 && o < len {
                        cases.push(Case {
                            class: format!("race/{stage_name}-completes-inside/{fname}@{o}/rest-40s-later"),
                            shape: format!("read/{stage_name}-completes-inside-frame-rest-much-later/{fname}"),
                            base: base.clone(),
                            variant: with_split(&base, sent.index, vec![(o, Duration::from_secs(40))]),
                        });
                    }
                }
            }
            // three segments: the length prefix (and a bit), a part of the body, the rest — the
            // completion lands between the second and the third (frame starts 100 ms earlier:
            // segments at -200 ms, -100 ms, +100 ms around the completion)
            let spec3 = BaseSpec { name: "race3", intent: Intent::Login, secret: true, lat, extras: vec![(completion_ms - 200, pkt.clone()), (completion_ms + 1_000, follow_up.clone())], no_target: false, ci_delay_ms: 0 };
            let base3 = build_base(&spec3, cli.seed ^ 0xf4 ^ (stage as u64) << 8);
            let brun3 = run(&base3);
            if let Some(sent3) = brun3.client.sent.iter().find(|s| s.label.starts_with("Extra")) {
                let len = sent3.plain.len();
                for o1 in [1usize, 2, 3, len / 3] {
                    for o2 in [o1 + 1, (o1 + len) / 2, len - 1] {
                        if o1 >= 1 && o2 > o1 && o2 < len {
                            cases.push(Case {
                                class: format!("race/{stage_name}-completes-inside/{fname}@{o1}+{o2}"),
                                shape: format!("read/{stage_name}-completes-inside-frame-3-segments/{fname}"),
                                base: base3.clone(),
                                variant: with_split(&base3, sent3.index, vec![(o1, Duration::from_millis(100)), (o2, Duration::from_millis(200))]),
                            });
                        }
                    }
                }
            }
        }
        // the Keep Alive echo itself in flight when the stage completes: tick, echo (prompt),
        // completion 100 ms later, second half of the echo 200 ms after the first
        let probe_spec = BaseSpec { name: "probe", intent: Intent::Login, secret: true, lat: [200_000, 0, 0], extras: vec![], no_target: false, ci_delay_ms: 0 };
        let probe = run(&build_base(&probe_spec, cli.seed ^ 0xf5));
        let Some(tick_ns) = facts(&probe).keep_alives.first().map(|k| k.1) else {
            problems.push("probe run saw no Keep Alive".into());
            continue;
        };
        let tick_ms = tick_ns / MS;
        let mut lat = [2_000u64, 2_000, 2_000];
        lat[stage] = tick_ms + 100 - lat[..stage].iter().sum::<u64>();
        // routing goes on for two more keep-alive periods after the raced stage: whatever was half
        // written must reach the client without waiting for the next packet
        if stage < 2 {
            lat[2] = 40_000;
        }
        let spec = BaseSpec { name: "race-echo", intent: Intent::Login, secret: true, lat, extras: vec![], no_target: false, ci_delay_ms: 0 };
        let base = build_base(&spec, cli.seed ^ 0xf6 ^ (stage as u64) << 8);
        let brun = run(&base);
        if let Some(sent) = brun.client.sent.iter().find(|s| s.label == "KeepAliveEcho#0") {
            for o in 1..sent.plain.len() {
                cases.push(Case {
                    class: format!("race/{stage_name}-completes-inside/KeepAliveEcho@{o}"),
                    shape: format!("read/{stage_name}-completes-inside-frame/KeepAliveEcho"),
                    base: base.clone(),
                    variant: with_split(&base, sent.index, vec![(o, Duration::from_millis(200))]),
                });
            }
            // F6: the Keep Alive frame itself half-written when the stage completes
            let ka_off: usize = brun.client.received.iter().take_while(|r| !matches!(r.pkt, Ok(Pkt::ConfKeepAliveOut { .. }))).map(|r| r.frame_len).sum();
            let ka_len = brun.client.received.iter().find(|r| matches!(r.pkt, Ok(Pkt::ConfKeepAliveOut { .. }))).map(|r| r.frame_len).unwrap_or(10);
            for k in 0..ka_len {
                let mut v = base.clone();
                v.write_plan = WritePlan { steps: vec![], stalls: vec![(ka_off + k, Duration::from_millis(300))] };
                cases.push(Case {
                    class: format!("race/{stage_name}-completes-while-keep-alive-half-written@{k}"),
                    shape: format!("write/{stage_name}-completes-inside-frame/KeepAlive"),
                    base: base.clone(),
                    variant: v,
                });
            }
        } else {
            problems.push(format!("race-echo base {stage_name}: no Keep Alive echo in the baseline"));
        }
    }

    // F5: a keep-alive tick lands inside a frame (2-byte length prefix: inside the prefix)
    {
        let probe_spec = BaseSpec { name: "probe", intent: Intent::Login, secret: true, lat: [200_000, 0, 0], extras: vec![], no_target: false, ci_delay_ms: 0 };
        let probe = run(&build_base(&probe_spec, cli.seed ^ 0xf7));
        let kas = facts(&probe).keep_alives;
        if kas.len() >= 2 {
            let tick = kas[0].1;
            // login phase: the Encryption Response (263 bytes) straddles the tick
            let spec = BaseSpec { name: "tick-login", intent: Intent::Login, secret: true, lat: [1_000, 0, 0], extras: vec![], no_target: false, ci_delay_ms: 0 };
            let mut base = build_base(&spec, cli.seed ^ 0xf8);
            if let Some(pos) = base.client.script.iter().position(|a| matches!(a, Act::EncryptionResponse)) {
                base.client.script.insert(pos, Act::SleepUntil(Duration::from_nanos(tick - 100 * MS)));
            }
            let brun = run(&base);
            if let Some(sent) = brun.client.sent.iter().find(|s| s.label == "EncryptionResponse") {
                for o in [1usize, 2, 3, 4, 50, sent.plain.len() - 1] {
                    cases.push(Case {
                        class: format!("tick/login/EncryptionResponse@{o}"),
                        shape: "read/keep-alive-tick-inside-frame/EncryptionResponse".into(),
                        base: base.clone(),
                        variant: with_split(&base, sent.index, vec![(o, Duration::from_millis(200))]),
                    });
                }
            }
            // configuration phase: frames of every kind straddle the tick
            for (fname, pkt) in &frames {
                let spec = BaseSpec { name: "tick-config", intent: Intent::Login, secret: true, lat: [40_000, 0, 0], extras: vec![(tick / MS - 100, pkt.clone())], no_target: false, ci_delay_ms: 0 };
                let base = build_base(&spec, cli.seed ^ 0xf9);
                let brun = run(&base);
                let Some(sent) = brun.client.sent.iter().find(|s| s.label.starts_with("Extra")) else { continue };
                let len = sent.plain.len();
                let mut offs = vec![1usize, 2, 3, len / 2, len - 1];
                offs.retain(|o| *o >= 1 && *o < len);
                offs.dedup();
                for o in offs {
                    cases.push(Case {
                        class: format!("tick/config/{fname}@{o}"),
                        shape: format!("read/keep-alive-tick-inside-frame/{fname}"),
                        base: base.clone(),
                        variant: with_split(&base, sent.index, vec![(o, Duration::from_millis(200))]),
                    });
                }
            }
        } else {
            problems.push("probe run saw fewer than two Keep Alives".into());
        }
    }

    // thorough: random combinations of everything
    if !quick {
        let specs = bases();
        for i in 0..cli.scaled(20_000) {
            let mut rng = Rng::stream(cli.seed, 80_000 + i);
            let spec = &specs[rng.usize_below(specs.len())];
            let base = build_base(spec, rng.u64());
            let mut v = base.clone();
            let nsplits = rng.below(6) as usize;
            for _ in 0..nsplits {
                let idx = rng.usize_below(12);
                let ncuts = rng.range(1, 3) as usize;
                let cuts = (0..ncuts).map(|_| (rng.range(1, 280) as usize, Duration::from_millis(*rng.pick(&[1u64, 50, 200, 1000])))).collect();
                v.client.seg.splits.push((idx, cuts));
            }
            if rng.chance(1, 3) {
                v.read_plan = ReadPlan { chunks: (0..rng.range(1, 4)).map(|_| rng.range(1, 20) as usize).collect(), pending: (0..rng.range(0, 4)).map(|_| rng.bool()).collect::<Vec<_>>() };
                if v.read_plan.pending.iter().all(|p| *p) {
                    v.read_plan.pending.push(false);
                }
            }
            if rng.chance(1, 3) {
                let mut steps: Vec<Option<usize>> = (0..rng.range(1, 5)).map(|_| if rng.chance(1, 3) { None } else { Some(rng.range(1, 12) as usize) }).collect();
                if steps.iter().all(|s| s.is_none()) {
                    steps.push(Some(1));
                }
                v.write_plan = WritePlan { steps, stalls: vec![] };
            }
            cases.push(Case { class: format!("random/{}/{i}", spec.name), shape: "random-combination/all".into(), base, variant: v });
        }
    }
    (cases, problems)
}

pub fn run_prop(cli: &Cli) -> i32 {
    let mut report = Report::new(
        cli,
        "exploration",
        "five baselines (status; fast login; login with slow discovery→filter→strategy, Keep-Alive echoes and tolerated packets in flight; transfer with late Client Information; no-target disconnect); variants: every split offset of every client frame (quick: every 7th offset of long frames, rotating with the seed), one byte at a time, server-side read chunking with spurious Pending, partial/pending write acceptance, a write stall inside every clientbound frame, each backend completion landing between two segments of each kind of configuration frame at every offset (completion × frame × offset), keep-alive ticks landing inside a frame (incl. inside a 2-byte length prefix, login and configuration phase), the Keep Alive frame half-written when each stage completes; oracle: trace(variant) == trace(unsegmented baseline) and the clientbound stream decrypts and parses completely; distinct = (family, frame, offset, racing event)",
    );
    let (cases, problems) = generate(cli);
    for p in problems {
        report.inconclusive(&p);
    }
    evaluate(cli, &mut report, cases);
    report.finish()
}


/// Keep Alives are packets the connection sends, too. They are projected out of the trace because a
/// delayed client legitimately waits a little longer (one Keep Alive more or less at the end); but
/// *when* they are sent while both runs are waiting must not depend on how the client's bytes were
/// cut. Compared: the Keep Alive instants inside the period in which both runs are in the
/// configuration phase, for variants that only differ on the client-to-server side.
fn keep_alive_instants_differ(c: &Case, b: &Run, v: &Run) -> Option<(String, Value)> {
    let plain = |sc: &Scenario| sc.write_plan.steps.is_empty() && sc.write_plan.stalls.is_empty();
    if !plain(&c.base) || !plain(&c.variant) {
        return None;
    }
    let ack = |r: &Run| r.client.sent.iter().find(|s| s.label == "LoginAcknowledged").map(|s| s.t_ns);
    let end = |r: &Run| {
        let f = facts(r);
        f.transfers.first().map(|t| t.2).or(f.disconnects.first().map(|d| d.1)).or(r.result_at_ns).unwrap_or(r.end_ns)
    };
    let (Some(ab), Some(av)) = (ack(b), ack(v)) else { return None };
    let from = ab.max(av) + MS;
    let to = end(b).min(end(v)).saturating_sub(MS);
    if to <= from {
        return None;
    }
    let inside = |r: &Run| -> Vec<u64> { facts(r).keep_alives.iter().map(|k| k.1).filter(|t| *t >= from && *t <= to).collect() };
    let (kb, kv) = (inside(b), inside(v));
    let same = kb.len() == kv.len() && kb.iter().zip(kv.iter()).all(|(x, y)| x.abs_diff(*y) <= MS);
    if same {
        return None;
    }
    let secs = |v: &[u64]| v.iter().map(|t| *t as f64 / 1e9).collect::<Vec<_>>();
    Some((
        format!("while both runs were waiting ({:.3} s .. {:.3} s) the unsegmented run was sent Keep Alives at {:?} s, the segmented/timed run at {:?} s", from as f64 / 1e9, to as f64 / 1e9, secs(&kb), secs(&kv)),
        json!({"compared_from_s": from as f64 / 1e9, "compared_to_s": to as f64 / 1e9, "baseline_keep_alive_s": secs(&kb), "variant_keep_alive_s": secs(&kv), "segmentation": format!("{:?}", c.variant.client.seg)}),
    ))
}

fn evaluate(cli: &Cli, report: &mut Report, cases: Vec<Case>) {
    let results = par_map(cases, cli.threads(), |_, c| {
        let b = run(&c.base);
        let v = run(&c.variant);
        let mut tb = trace(&b);
        let mut tv = trace(&v);
        if c.shape.contains("/clientbound-only/") {
            tb.retain(|l| !l.starts_with("call ") && !l.starts_with("result "));
            tv.retain(|l| !l.starts_with("call ") && !l.starts_with("result "));
        }
        let mut findings: Vec<(String, String, Value)> = vec![];
        // A delay that keeps a Keep Alive echo back until the next Keep Alive is due changes what
        // the client did by C07's measure (it left a Keep Alive unechoed): that outcome is C07's to
        // judge, not a dependence on segmentation. Read off the client's own log only.
        let long_pause = c.variant.client.seg.splits.iter().any(|(_, cuts)| cuts.iter().any(|(_, p)| *p >= Duration::from_secs(16)));
        if long_pause {
            // (only Keep Alives that the unsegmented run was sent too: one that comes after the moment
            // the unsegmented run was over is itself a difference)
            let base_over = b.client.received.last().map(|r| r.t_ns).unwrap_or(0);
            let held_back = facts(&v).keep_alives.iter().filter(|(_, t)| *t <= base_over).any(|(id, t)| {
                let echo = v.client.sent.iter().find(|s| s.label.starts_with("KeepAliveEcho") && matches!(Pkt::decode(vp_common::refcodec::Phase::Config, vp_common::refcodec::Dir::Serverbound, 0x04, &s.plain[2..]), Ok(Pkt::ConfKeepAliveIn { id: e }) if e == *id));
                match echo {
                    Some(s) => s.t_ns + 2 * MS >= *t + 16_000 * MS,
                    None => true,
                }
            });
            if held_back {
                let sample = json!({"case": c.class, "not_compared": "the delay held a Keep Alive echo back past its deadline"});
                return (c.class.clone(), sample, findings, v.net.read_polls, v.net.write_polls, true);
            }
        }
        if b.client.garbage.is_some() || b.client.incomplete_tail > 0 || !matches!(b.result, ServerResult::Ok | ServerResult::Err(..)) {
            findings.push((format!("baseline-broken/{}", c.shape), format!("the unsegmented baseline itself is broken ({})", b.result.kind()), witness(&c.base, &b, json!({}))));
        }
        if v.client.garbage.is_some() || facts(&v).undecodable > 0 || v.client.incomplete_tail > 0 {
            findings.push((
                format!("clientbound-frame-broken/{}", c.shape),
                "a frame sent to the client arrived incomplete, interleaved or undecodable".into(),
                witness(&c.variant, &v, json!({"baseline_trace": tb, "segmentation": format!("{:?}", c.variant.client.seg), "read_plan": format!("{:?}", c.variant.read_plan), "write_plan": format!("{:?}", c.variant.write_plan)})),
            ));
        } else if c.shape.contains("/keep-alive-count/") && facts(&b).keep_alives.len() != facts(&v).keep_alives.len() {
            findings.push((
                format!("keep-alive-count-differs/{}", c.shape),
                format!("a client that never answers was sent {} Keep Alive(s) before the connection ended when its transport took every byte at once, {} when it took the first Keep Alive late", facts(&b).keep_alives.len(), facts(&v).keep_alives.len()),
                witness(&c.variant, &v, json!({"baseline_trace": tb, "variant_trace": tv, "write_plan": format!("{:?}", c.variant.write_plan)})),
            ));
        } else if let Some((what, detail)) = keep_alive_instants_differ(c, &b, &v) {
            findings.push((format!("keep-alive-instants-differ/{}", c.shape), what, witness(&c.variant, &v, detail)));
        } else if tb != tv {
            let first = tb.iter().zip(tv.iter()).position(|(a, b)| a != b).unwrap_or(tb.len().min(tv.len()));
            findings.push((
                format!("trace-differs/{}", c.shape),
                format!("the segmented/timed run behaves differently from the unsegmented run: baseline {:.90?} vs variant {:.90?}", tb.get(first).map(|s| s.chars().take(80).collect::<String>()), tv.get(first).map(|s| s.chars().take(80).collect::<String>())),
                witness(&c.variant, &v, json!({"baseline_trace": tb, "variant_trace": tv, "segmentation": format!("{:?}", c.variant.client.seg), "read_plan": format!("{:?}", c.variant.read_plan), "write_plan": format!("{:?}", c.variant.write_plan)})),
            ));
        }
        let sample = json!({"case": c.class, "trace": tv, "equal_to_baseline": tb == tv});
        (c.class.clone(), sample, findings, v.net.read_polls, v.net.write_polls, false)
    });
    for (i, (class, sample, findings, rp, wp, not_compared)) in results.into_iter().enumerate() {
        if not_compared {
            report.eval(None);
            report.count("cases not compared: the delay held a Keep Alive echo back past its deadline (C07 decides those)", 1);
            continue;
        }
        report.eval(Some(&class));
        if i % 499 == 0 {
            report.sample(sample);
        }
        report.count("server read polls observed", rp as u64);
        report.count("server write polls observed", wp as u64);
        for (sig, what, w) in findings {
            report.violation(&sig, &what, w);
        }
    }
}

/// C05 at the level of the connection: the switch to encryption happens in mid-stream, and with a
/// client that does not wait for Login Success the server reads across it. For every receive chunk
/// size the read boundary falls on a different byte relative to the switch; the bytes read ahead
/// and the bytes read later must form one continuous decryption (observable as: same trace as the
/// reactive client, clientbound stream decrypts and parses).
pub fn run_cipher_switch(cli: &Cli) -> i32 {
    let mut report = Report::new(
        cli,
        "exploration",
        "connection-level part of C05: clients that pipeline the Encryption Response and the following (encrypted) frames, received by the server in chunks of every size 1..48 and around the Encryption Response frame length (with and without spurious Pending), for login / transfer / slow-routing baselines; oracle: trace equals the reactive client's trace and the clientbound stream decrypts and parses under the independent cipher; distinct = (baseline, pipelining mode, chunk size, pending pattern)",
    );
    let mut cases = vec![];
    let mut chunks: Vec<usize> = (1..=48).collect();
    chunks.extend([64, 100, 200, 261, 262, 263, 264, 265, 266, 267, 270, 300, 500, 4096]);
    if cli.tier == Tier::Thorough {
        chunks.extend(49..=260);
    }
    let mut all_bases = bases();
    // a client that sends a lot right behind its Encryption Response (a brand message of 300 bytes and
    // a mod list of 3000): more ciphertext is read ahead of the switch than any small buffer holds,
    // and routing takes long enough for all of it to be looked at
    all_bases.push(BaseSpec { name: "login-much-sent-ahead", intent: Intent::Login, secret: true, lat: [2_000, 0, 0], extras: vec![(0, plugin_message(300)), (0, plugin_message(3000)), (0, Pkt::ResourcePackResponse { uuid: 9, result: 0 })], no_target: false, ci_delay_ms: 0 });
    if cli.tier != Tier::Thorough {
        chunks.extend([1024, 8192, 16384]);
    } else {
        chunks.extend([1024, 2048, 3000, 3500, 8192, 16384]);
    }
    for (bi, spec) in all_bases.iter().enumerate() {
        if spec.intent == Intent::Status {
            continue;
        }
        let base = build_base(spec, cli.seed.wrapping_mul(41).wrapping_add(bi as u64));
        for keep_wait in [false, true] {
            let mut v = base.clone();
            v.client.script.retain(|a| match a {
                Act::AwaitPkt { name, .. } => *name == "EncryptionRequest" || (keep_wait && *name == "LoginSuccess"),
                _ => true,
            });
            for &c in &chunks {
                for pending in [vec![], vec![true, false], vec![false, true, true]] {
                    let mut v = v.clone();
                    v.read_plan = ReadPlan { chunks: vec![c], pending: pending.clone() };
                    cases.push(Case {
                        class: format!("{}/pipelined{}/chunk-{c}/pending-{}", spec.name, if keep_wait { "-after-login" } else { "" }, pending.len()),
                        shape: "cipher-switch/read-ahead-across-switch".into(),
                        base: base.clone(),
                        variant: v,
                    });
                }
            }
            // two alternating chunk sizes
            for (a, b) in [(1usize, 262usize), (262, 1), (263, 2), (7, 300), (264, 1)] {
                let mut v = v.clone();
                v.read_plan = ReadPlan { chunks: vec![a, b], pending: vec![] };
                cases.push(Case { class: format!("{}/pipelined{}/chunks-{a}-{b}", spec.name, if keep_wait { "-after-login" } else { "" }), shape: "cipher-switch/read-ahead-across-switch".into(), base: base.clone(), variant: v });
            }
        }
    }
    evaluate(cli, &mut report, cases);
    report.finish()
}
