//! C03 — the player is transferred to exactly the target the strategy chose; localized refusal
//! otherwise.

use crate::mk::{self, facts};
use crate::scenario::*;
use serde_json::{Value, json};
use std::net::IpAddr;
use std::time::Duration;
use vp_common::refcodec::nbt_normalise;
use vp_common::report::par_map;
use vp_common::{Cli, Report, Rng};
use vp_sim::recadapters::{Call, FilterScript, LocalizeScript, Outcome, StrategyScript, TargetRec, echo_text};

#[derive(Clone, Debug)]
struct Case {
    sc: Scenario,
    class: String,
    locale: String,
    discovery: Option<Vec<TargetRec>>,
}

const LOCALES: &[&str] = &["de_de", "de_at", "pt_br", "en_us", "en_gb", "zz", "", "zh_hant_tw", "fr", "de", "x_y_z_w", "tlh_klingon_extended_x", "ru_кириллица_длинная"];

/// Java style: language lower case, every later part upper case ("pt_BR"); the table and the client
/// of one scenario always use the same style, so no two spellings differ only in case.
fn styled(locale: &str, upper: bool) -> String {
    if !upper {
        return locale.to_string();
    }
    locale.split('_').enumerate().map(|(i, p)| if i == 0 { p.to_string() } else { p.to_uppercase() }).collect::<Vec<_>>().join("_")
}

fn table(rng: &mut Rng, upper: bool) -> (String, Vec<(String, Vec<(String, String)>)>) {
    // every locale gets a distinct message so that a wrong fall-back is visible
    let pool = ["de_de", "de", "pt", "pt_br", "en", "en_us", "zh", "zh_hant", "zh_hant_tw", "fr", "x", "x_y", "x_y_z", "tlh", "tlh_klingon_extended_x", "ru", "ru_кириллица_длинная"];
    let pool: Vec<String> = pool.iter().map(|l| styled(l, upper)).collect();
    let mut messages = vec![];
    for loc in pool {
        if rng.chance(1, 2) {
            let mut msgs = vec![];
            for key in ["disconnect_no_target", "disconnect_timeout"] {
                if rng.chance(5, 6) {
                    // plain text with multi-byte characters now and then (the length prefix counts bytes)
                    let text = match rng.below(9) {
                        0..=2 => format!("{key} für {loc} — nö №{} ✓", rng.below(1000)),
                        // plain text that begins like something else: a bracketed prefix, a quote, a number
                        3 => format!("[Passage] {key} in {loc} #{}", rng.below(1000)),
                        4 => format!("\"{key}\" in {loc} #{}", rng.below(1000)),
                        5 => format!("{} {key} in {loc}", rng.below(1000)),
                        _ => format!("{key} in {loc} #{}", rng.below(1000)),
                    };
                    // as a component: a styled part, or what people write by hand - lists that mix
                    // plain strings with styled parts, whole with fractional numbers, an entry left null
                    let message = match rng.below(8) {
                        0 | 1 => json!({"text": text, "bold": true}).to_string(),
                        2 => json!({"text": "", "extra": [text, {"text": " (later)", "italic": true}]}).to_string(),
                        3 => json!({"translate": format!("{text}: %s of %s (%s)"), "with": [3, 4, 0.75]}).to_string(),
                        4 => json!({"text": text, "extra": [" try again", null]}).to_string(),
                        _ => text,
                    };
                    msgs.push((key.to_string(), message));
                }
            }
            messages.push((loc.to_string(), msgs));
        }
    }
    let default = styled(*rng.pick(&["en_us", "en", "de_de", "fr_fr"]), upper);
    (default, messages)
}

/// Independent fall-back: the locale, then the locale cut at each '_' from the right, then the
/// same for the default locale; the first locale that has a table decides (key itself if the
/// table lacks the key or no table is found).
fn expected_text(default: &str, messages: &[(String, Vec<(String, String)>)], locale: &str, key: &str) -> String {
    let mut chain: Vec<String> = vec![];
    for base in [locale, default] {
        let mut cur = base.to_string();
        chain.push(cur.clone());
        while let Some(i) = cur.rfind('_') {
            cur.truncate(i);
            chain.push(cur.clone());
        }
    }
    for loc in chain {
        if let Some((_, msgs)) = messages.iter().find(|(l, _)| *l == loc) {
            return msgs.iter().find(|(k, _)| k == key).map(|(_, m)| m.clone()).unwrap_or_else(|| key.to_string());
        }
    }
    key.to_string()
}

fn text_value(s: &str) -> Value {
    if s.starts_with('{') {
        serde_json::from_str::<Value>(s).map(|v| nbt_normalise(&v)).unwrap_or(Value::String(s.to_string()))
    } else {
        Value::String(s.to_string())
    }
}

fn generate(cli: &Cli) -> Vec<Case> {
    let n = cli.scaled(cli.tier.pick(1500, 30_000));
    let mut out = vec![];
    for i in 0..n {
        let mut rng = Rng::stream(cli.seed, 30_000 + i);
        let nt = rng.below(7) as usize;
        let mut ts = mk::targets(&mut rng, nt);
        if nt >= 2 && rng.chance(1, 5) {
            // duplicates (same address, other identifier)
            ts[1].address = ts[0].address;
        }
        if nt >= 2 && rng.chance(1, 5) {
            // the same identifier twice in a row (e.g. one server listed under two addresses)
            let k = rng.usize_below(nt - 1);
            ts[k + 1].identifier = ts[k].identifier.clone();
        }
        let discovery = if rng.chance(1, 12) { None } else { Some(ts.clone()) };
        let (filter, fname) = match rng.below(7) {
            0 | 1 => (FilterScript::Identity, "identity"),
            2 => {
                let keep: Vec<usize> = (0..nt).filter(|_| rng.bool()).collect();
                (FilterScript::Positions(keep), "subset")
            }
            3 => {
                let mut order: Vec<usize> = (0..nt).collect();
                rng.shuffle(&mut order);
                (FilterScript::Positions(order), "reorder")
            }
            4 => (FilterScript::Positions(vec![]), "empty"),
            5 => {
                let extra = rng.range(1, 3) as usize;
                (FilterScript::Fixed(mk::targets(&mut rng, extra)), "replaced")
            }
            _ => (FilterScript::Err, "error"),
        };
        let (strategy, sname) = match rng.below(8) {
            0..=3 => (StrategyScript::Position(rng.below(7) as usize), "element"),
            4 => (StrategyScript::Fixed(Some(mk::targets(&mut rng, 1).remove(0))), "outsider"),
            5 | 6 => (StrategyScript::Fixed(None), "none"),
            _ => (StrategyScript::Err, "error"),
        };
        let upper = rng.chance(1, 3);
        let locale = styled(*rng.pick(LOCALES), upper);
        let (localize, lname) = match rng.below(3) {
            0 => (LocalizeScript::Echo { as_object: true }, "echo-object"),
            1 => (LocalizeScript::Echo { as_object: false }, "echo-plain"),
            _ => {
                let (default_locale, messages) = table(&mut rng, upper);
                (LocalizeScript::Table { default_locale, messages }, if upper { "table-java-style" } else { "table" })
            }
        };
        let claimed = mk::ident(&mut rng, "claimed");
        let authed = mk::ident(&mut rng, "vouched");
        let intent = if rng.bool() { Intent::Login } else { Intent::Transfer };
        let p = ScriptParams { intent, address: "play.example.org", port: 25565, protocol: 770, claimed: &claimed, locale: &locale, ping_payload: 0, client_info_delay: Duration::ZERO };
        let plan = default_plan(&p, mk::secret16(&mut rng));
        let mut adapters = mk::routing_adapters(Some((&authed, &[])), vec![]);
        adapters.discovery = match &discovery {
            Some(t) => Outcome::Ok(t.clone()),
            None => Outcome::Err,
        };
        adapters.filter = filter;
        adapters.strategy = strategy;
        adapters.localize = localize;
        let cfg = ServerCfg { secret: if rng.bool() { Some(b"s3cret".to_vec()) } else { None }, ..Default::default() };
        let mut plan = plan;
        // a returning player: its (valid) authentication cookie remembers where it was sent last
        // time - one of today's candidates, a server that is gone, nothing. Where it goes now is
        // for the filters and the strategy of *this* connection to say.
        if intent == Intent::Transfer && cfg.secret.is_some() && rng.chance(2, 3) {
            let returning = mk::ident(&mut rng, "returning");
            let ck = crate::cookie::build(&mut rng, crate::cookie::Class::Valid, b"s3cret", &cfg.client_addr, 6 * 3600, &returning, &[]);
            if let Some(payload) = ck.payload.as_ref().filter(|p| p.len() > 32)
                && let Ok(mut j) = serde_json::from_slice::<Value>(&payload[32..])
            {
                let remembered = match (&discovery, rng.below(4)) {
                    (Some(t), 0..=2) if !t.is_empty() => json!(t[rng.usize_below(t.len())].identifier),
                    (_, 3) => Value::Null,
                    _ => json!("a-server-that-is-gone"),
                };
                j["target"] = remembered;
                let body = serde_json::to_vec(&j).expect("json");
                plan.cookies = vec![(mk::AUTH_KEY.to_string(), Some(vp_common::refcrypto::sign_cookie(b"s3cret", &body)))];
            }
        }
        let class = format!("targets-{}/{}filter-{fname}/strategy-{sname}/{lname}/locale-{}", nt.min(3), if discovery.is_none() { "discovery-error/" } else { "" }, if locale.is_empty() { "empty" } else { &locale });
        out.push(Case { sc: default_scenario(&class, plan, adapters, cfg), class, locale, discovery });
    }
    out
}

struct Finding {
    signature: String,
    what: String,
    detail: Value,
}

fn check(case: &Case, run: &Run) -> Vec<Finding> {
    let f = facts(run);
    let mut out = vec![];
    let mut bad = |sig: &str, what: String, detail: Value| out.push(Finding { signature: sig.to_string(), what, detail });
    let script = &case.sc.adapters;
    if f.login_success.is_none() {
        bad("setup/no-login-success", format!("honest login did not reach Login Success ({})", run.result.kind()), json!({}));
        return out;
    }
    // 1. discovery -> filter
    let mut failed = case.discovery.is_none();
    let filter_in: Option<Vec<TargetRec>> = f.filter_calls.first().and_then(|c| if let Call::Filter { targets, .. } = &c.call { Some(targets.clone()) } else { None });
    if let (Some(disc), Some(got)) = (&case.discovery, &filter_in)
        && disc != got
    {
        bad("filter-input-differs-from-discovery", "the list offered to the filters is not what discovery returned".into(), json!({"discovery": format!("{disc:?}"), "filter_input": format!("{got:?}")}));
    }
    if case.discovery.is_some() && filter_in.is_none() {
        bad("filter-not-consulted", "discovery succeeded but the filter was never called".into(), json!({}));
    }
    if f.filter_calls.len() > 1 || f.select_calls.len() > 1 || f.discover_calls.len() > 1 {
        bad("stage-called-twice", "a routing stage was consulted more than once".into(), json!({}));
    }
    // 2. filter -> strategy
    let filter_out: Option<Vec<TargetRec>> = match (&script.filter, &filter_in) {
        (_, None) => None,
        (FilterScript::Identity, Some(i)) => Some(i.clone()),
        (FilterScript::Positions(p), Some(i)) => Some(p.iter().filter_map(|k| i.get(*k).cloned()).collect()),
        (FilterScript::Fixed(v), Some(_)) => Some(v.clone()),
        (FilterScript::Err, Some(_)) => {
            failed = true;
            None
        }
        (FilterScript::Never, _) => None,
    };
    let select_in: Option<Vec<TargetRec>> = f.select_calls.first().and_then(|c| if let Call::Select { targets, .. } = &c.call { Some(targets.clone()) } else { None });
    if let (Some(exp), Some(got)) = (&filter_out, &select_in)
        && exp != got
    {
        bad("strategy-input-differs-from-filter-output", "the list offered to the strategy is not what the filters returned".into(), json!({"filter_output": format!("{exp:?}"), "strategy_input": format!("{got:?}")}));
    }
    if filter_out.is_some() && select_in.is_none() {
        bad("strategy-not-consulted", "filtering succeeded but the strategy was never called".into(), json!({}));
    }
    if filter_out.is_none() && select_in.is_some() {
        bad("strategy-consulted-after-failure", "the strategy was called although an earlier stage failed".into(), json!({}));
    }
    // 3. strategy -> transfer / disconnect
    let chosen: Option<Option<TargetRec>> = match (&script.strategy, &select_in) {
        (_, None) => None,
        (StrategyScript::Position(p), Some(i)) => Some(if i.is_empty() { None } else { Some(i[p % i.len()].clone()) }),
        (StrategyScript::Fixed(t), Some(_)) => Some(t.clone()),
        (StrategyScript::Err, Some(_)) => {
            failed = true;
            None
        }
        (StrategyScript::Never, _) => None,
    };
    let last = run.client.received.len().saturating_sub(1);
    if f.transfers.len() > 1 {
        bad("transfer-twice", "more than one Transfer".into(), json!({}));
    }
    if let Some(t) = f.transfers.first()
        && t.3 != last
    {
        bad("packet-after-transfer", format!("{} sent after the Transfer", run.client.names()[t.3 + 1]), json!({}));
    }
    match &chosen {
        Some(Some(target)) => {
            match f.transfers.first() {
                None => bad("chosen-but-no-transfer", format!("the strategy chose a target but no Transfer was sent ({})", run.result.kind()), json!({"chosen": format!("{target:?}")})),
                Some((host, port, _, _)) => {
                    let ip_ok = host.parse::<IpAddr>().map(|ip| ip == target.address.ip()).unwrap_or(false);
                    if !ip_ok || *port != target.address.port() as i32 {
                        // which other target, if any, does it point at?
                        let other = select_in.as_ref().and_then(|l| l.iter().position(|t| Some(t.address.ip()) == host.parse().ok() && t.address.port() as i32 == *port));
                        bad(
                            if other.is_some() { "transfer-to-other-candidate" } else { "transfer-address-wrong" },
                            format!("Transfer to {host}:{port} but the chosen target is {}", target.address),
                            json!({"chosen": format!("{target:?}"), "transfer": [host, port]}),
                        );
                    }
                }
            }
            if !f.disconnects.is_empty() {
                bad("disconnect-despite-target", "Disconnect sent although a target was chosen".into(), json!({}));
            }
        }
        Some(None) => {
            if !f.transfers.is_empty() {
                bad("transfer-without-chosen-target", "Transfer sent although the strategy chose no target".into(), json!({}));
            }
            match f.disconnects.as_slice() {
                [] => bad("no-target-no-disconnect", format!("no target chosen but no Disconnect was sent ({})", run.result.kind()), json!({})),
                [(reason, _, idx)] => {
                    if *idx != last {
                        bad("packet-after-disconnect", "packets after the Disconnect".into(), json!({}));
                    }
                    let expected = match &script.localize {
                        LocalizeScript::Echo { as_object } => Some(echo_text(Some(&case.locale), "disconnect_no_target", *as_object)),
                        LocalizeScript::Table { default_locale, messages } => Some(expected_text(default_locale, messages, &case.locale, "disconnect_no_target")),
                        LocalizeScript::Err => None,
                    };
                    if let Some(exp) = expected {
                        let want = text_value(&exp);
                        if *reason != want {
                            // diagnose: is it the text for "no locale" / the default locale?
                            let default_text = match &script.localize {
                                LocalizeScript::Echo { as_object } => echo_text(None, "disconnect_no_target", *as_object),
                                LocalizeScript::Table { default_locale, messages } => expected_text(default_locale, messages, default_locale, "disconnect_no_target"),
                                LocalizeScript::Err => String::new(),
                            };
                            let shape = if *reason == text_value(&default_text) { "default-locale-text" } else { "other-text" };
                            bad(
                                &format!("disconnect-text-not-for-reported-locale/{shape}"),
                                format!("client reported locale {:?} but the Disconnect text is not the configured message for it", case.locale),
                                json!({"expected": want, "got": reason, "locale_asked": f.localize_calls.iter().map(|c| format!("{:?}", c.call)).collect::<Vec<_>>()}),
                            );
                        }
                    }
                }
                _ => bad("disconnect-twice", "more than one Disconnect".into(), json!({})),
            }
        }
        None => {
            if failed && !f.transfers.is_empty() {
                bad("transfer-despite-failed-stage", "Transfer sent although discovery, filtering or selection failed".into(), json!({}));
            }
        }
    }
    out
}

/// Several filters in a row (`Vec<T>`, what the application builds from the configured list): the
/// list each link is handed is exactly what the link before it returned, and a link that fails
/// fails the chain - "if filtering fails, no Transfer is sent" starts here.
fn filter_chain_histories(cli: &Cli, report: &mut Report) {
    use passage_adapters::filter::FilterAdapter;
    use vp_sim::recadapters::{AdapterScript, Rec};
    let n = cli.scaled(cli.tier.pick(150, 3000));
    let items: Vec<u64> = (0..n).collect();
    let results = par_map(items, cli.threads(), |_, i| {
        let mut rng = Rng::stream(cli.seed, 38_000 + i);
        let rt = tokio::runtime::Builder::new_current_thread().enable_time().start_paused(true).build().expect("runtime");
        rt.block_on(async {
            let nt = rng.usize_below(6);
            let input: Vec<passage_adapters::Target> = mk::targets(&mut rng, nt).iter().map(|t| t.to_target()).collect();
            let nl = 1 + rng.usize_below(4);
            let mut scripts = vec![];
            for _ in 0..nl {
                scripts.push(match rng.below(7) {
                    0 | 1 => FilterScript::Identity,
                    2 => FilterScript::Positions((0..nt).filter(|_| rng.bool()).collect()),
                    3 => {
                        let mut order: Vec<usize> = (0..nt).collect();
                        rng.shuffle(&mut order);
                        FilterScript::Positions(order)
                    }
                    4 => FilterScript::Positions(vec![]),
                    5 => FilterScript::Fixed(mk::targets(&mut rng, 2)),
                    _ => FilterScript::Err,
                });
            }
            let links: Vec<Rec> = scripts.iter().map(|f| Rec::new(AdapterScript { filter: f.clone(), ..Default::default() })).collect();
            let client: std::net::SocketAddr = "203.0.113.9:40000".parse().expect("addr");
            let user = uuid::Uuid::from_u128(7);
            // the links one after the other, by hand
            let mut by_hand: Result<Vec<passage_adapters::Target>, String> = Ok(input.clone());
            let manual: Vec<Rec> = scripts.iter().map(|f| Rec::new(AdapterScript { filter: f.clone(), ..Default::default() })).collect();
            for l in &manual {
                by_hand = match by_hand {
                    Ok(t) => l.filter(&client, ("chain.example.org", 25565), 770, ("Chained", &user), t).await.map_err(|e| e.to_string()),
                    Err(e) => Err(e),
                };
            }
            let chained = links.filter(&client, ("chain.example.org", 25565), 770, ("Chained", &user), input.clone()).await.map_err(|e| e.to_string());
            let calls: Vec<usize> = links.iter().map(|l| l.calls().len()).collect();
            let same = match (&chained, &by_hand) {
                (Ok(a), Ok(b)) => a.iter().map(TargetRec::from).collect::<Vec<_>>() == b.iter().map(TargetRec::from).collect::<Vec<_>>(),
                (Err(_), Err(_)) => true,
                _ => false,
            };
            // links behind a failed one must not be consulted
            let first_err = scripts.iter().position(|f| matches!(f, FilterScript::Err));
            let consulted_after_failure = first_err.map(|k| calls.iter().skip(k + 1).any(|c| *c > 0)).unwrap_or(false);
            let detail = json!({"links": format!("{scripts:?}"), "input": input.iter().map(|t| t.identifier.clone()).collect::<Vec<_>>(), "chain": format!("{:?}", chained.as_ref().map(|v| v.iter().map(|t| t.identifier.clone()).collect::<Vec<_>>())), "one_after_the_other": format!("{:?}", by_hand.as_ref().map(|v| v.iter().map(|t| t.identifier.clone()).collect::<Vec<_>>())), "calls_per_link": calls});
            let finding = if !same {
                Some((if by_hand.is_err() { "filter-chain/failed-link-ignored" } else { "filter-chain/result-differs" }, "a chain of filters does not return what its links return one after the other", detail))
            } else if consulted_after_failure {
                Some(("filter-chain/link-consulted-after-failure", "a filter behind a failed one was still consulted", detail))
            } else {
                None
            };
            (nl, first_err.is_some(), finding)
        })
    });
    for (nl, has_err, finding) in results {
        report.eval(Some(&format!("filter-chain/{nl}-links/{}", if has_err { "one-fails" } else { "all-answer" })));
        report.count("filter chains compared with their links applied one after the other", 1);
        if let Some((sig, what, w)) = finding {
            report.violation(sig, what, w);
        }
    }
}

/// The last packets of a routed connection behind a Keep Alive that the client has only taken half
/// of when the selection completes (a client that reads slowly): the Keep Alive is completed, then
/// the cookies and the one Transfer follow, whole and with the chosen target's address.
fn half_written_keep_alive_histories(cli: &Cli, report: &mut Report) {
    use vp_common::refcodec::Pkt;
    let mut rng = Rng::stream(cli.seed, 38_000);
    let claimed = mk::ident(&mut rng, "claimed");
    let authed = mk::ident(&mut rng, "vouched");
    let p = ScriptParams { intent: Intent::Login, address: "play.example.org", port: 25565, protocol: 770, claimed: &claimed, locale: "en_us", ping_payload: 0, client_info_delay: Duration::ZERO };
    let plan = default_plan(&p, mk::secret16(&mut rng));
    let targets = mk::targets(&mut rng, 3);
    let mut adapters = mk::routing_adapters(Some((&authed, &[])), targets.clone());
    adapters.strategy = StrategyScript::Position(2);
    // the first Keep Alive is due 16 s into the connection; the selection completes 100 ms later
    adapters.strategy_latency = Duration::from_millis(16_100);
    let cfg = ServerCfg { secret: Some(b"half-written".to_vec()), ..Default::default() };
    let base = default_scenario("half-written-keep-alive", plan, adapters, cfg);
    let probe = run(&base);
    let off: usize = probe.client.received.iter().take_while(|r| !matches!(r.pkt, Ok(Pkt::ConfKeepAliveOut { .. }))).map(|r| r.frame_len).sum();
    let Some(ka) = probe.client.received.iter().find(|r| matches!(r.pkt, Ok(Pkt::ConfKeepAliveOut { .. }))) else {
        report.inconclusive("half-written Keep Alive: the undisturbed run saw no Keep Alive");
        return;
    };
    for k in 0..ka.frame_len {
        let mut sc = base.clone();
        // the client takes k bytes of the Keep Alive, then nothing for 300 ms
        sc.write_plan = vp_sim::simnet::WritePlan { steps: vec![], stalls: vec![(off + k, Duration::from_millis(300))] };
        let r = run(&sc);
        let f = facts(&r);
        report.eval(Some(&format!("half-written-keep-alive@{k}")));
        report.count("routing completed while a Keep Alive was half written", 1);
        let want = &targets[2];
        let ok = f.transfers.len() == 1
            && f.transfers[0].0 == want.address.ip().to_string()
            && f.transfers[0].1 == want.address.port() as i32
            && r.client.garbage.is_none()
            && f.undecodable == 0
            && r.client.incomplete_tail == 0
            && matches!(r.client.received.last().map(|x| &x.pkt), Some(Ok(Pkt::Transfer { .. })));
        if !ok {
            report.violation(
                "transfer-damaged-behind-half-written-keep-alive",
                &format!("the selection completed while the client had taken {k} of {} bytes of a Keep Alive: the client did not end up with one whole Transfer to the chosen target as its last packet ({})", ka.frame_len, r.result.kind()),
                witness(&sc, &r, json!({"keep_alive_bytes_taken_before_the_stall": k, "chosen": format!("{}", want.address), "transfers_seen": f.transfers.len(), "clientbound": r.client.names()})),
            );
        }
    }
}

/// The localization adapter lives as long as the application and is shared by all connections: one
/// instance is asked a long random sequence of (locale, message) questions - the same locale for
/// different messages, the same message for different locales, in any order - and every answer is
/// compared with the independent fall-back oracle. Whatever the adapter remembers between calls
/// is part of what is observed.
fn adapter_histories(cli: &Cli, report: &mut Report) {
    use passage_adapters::localization::LocalizationAdapter;
    let n = cli.scaled(cli.tier.pick(40, 600));
    let items: Vec<u64> = (0..n).collect();
    let results = par_map(items, cli.threads(), |_, i| {
        let mut rng = Rng::stream(cli.seed, 39_000 + i);
        let upper = rng.chance(1, 3);
        let (default_locale, messages) = table(&mut rng, upper);
        let map = messages.iter().map(|(loc, msgs)| (loc.clone(), msgs.iter().cloned().collect())).collect();
        let adapter = passage_adapters::FixedLocalizationAdapter::new(default_locale.clone(), map);
        let rt = tokio::runtime::Builder::new_current_thread().build().expect("runtime");
        let mut calls = 0u64;
        let mut finding: Option<(String, String, Value)> = None;
        let mut asked: Vec<Value> = vec![];
        for step in 0..80 {
            let locale = if rng.chance(1, 10) { None } else { Some(styled(*rng.pick(LOCALES), upper)) };
            let key = *rng.pick(&["disconnect_no_target", "disconnect_timeout", "disconnect_no_target", "locale", "no_such_message"]);
            let got = rt.block_on(adapter.localize(locale.as_deref(), key, &[]));
            calls += 1;
            let want = expected_text(&default_locale, &messages, locale.as_deref().unwrap_or(&default_locale), key);
            asked.push(json!([locale, key]));
            let ok = match &got {
                Ok(text) => text_value(text) == text_value(&want),
                Err(_) => false,
            };
            if !ok && finding.is_none() {
                let earlier_same_locale = asked[..step].iter().any(|a| a[0] == json!(locale));
                finding = Some((
                    format!("shared-localization-adapter/{}", if earlier_same_locale { "answer-depends-on-earlier-questions" } else { "wrong-answer" }),
                    format!("question {step} ({locale:?}, {key}) on a long-lived localization adapter was answered {got:?}, the table says {want:?}"),
                    json!({"default_locale": default_locale, "messages": messages, "questions_so_far": asked.clone(), "got": format!("{got:?}"), "expected": want}),
                ));
            }
        }
        (calls, finding)
    });
    for (calls, finding) in results {
        report.eval(Some("shared-localization-adapter"));
        report.count("questions put to long-lived localization adapters and compared with the table", calls);
        if let Some((sig, what, w)) = finding {
            report.violation(&sig, &what, w);
        }
    }
}

pub fn run_prop(cli: &Cli) -> i32 {
    let mut report = Report::new(
        cli,
        "exploration",
        "random routing scenarios: 0-6 discovered targets (IPv4/IPv6/v4-mapped, ports 0/1/25565/65535, duplicates, metadata) × scripted filter {identity, subset, reorder, empty, replaced list, error} × scripted strategy {element k, target not in the list, none, error} × discovery error × localization {echo of the question asked, random tables through the repository's FixedLocalizationAdapter with an independent fall-back oracle} × 11 client locales; distinct = combination of those classes",
    );
    report.assume("within one scenario the localization table and the client use the same spelling style (all lower case, or Java style pt_BR), so no two locales differ only in case: the statement does not say whether matching is case sensitive");
    scenarios_into(cli, &mut report);
    adapter_histories(cli, &mut report);
    filter_chain_histories(cli, &mut report);
    half_written_keep_alive_histories(cli, &mut report);
    report.finish()
}

/// The routing scenarios, judged into `report` (also used by ./check C18 for the clause "what the
/// strategy is offered is exactly what the filters left").
pub fn scenarios_into(cli: &Cli, report: &mut Report) {
    let cases = generate(cli);
    let results = par_map(cases, cli.threads(), |_, case| {
        let run = run(&case.sc);
        let f = facts(&run);
        let findings: Vec<(Finding, Value)> = check(case, &run).into_iter().map(|fi| { let w = witness(&case.sc, &run, fi.detail.clone()); (fi, w) }).collect();
        let sample = json!({"case": case.class, "clientbound": run.client.names(), "transfer": f.transfers.first().map(|t| format!("{}:{}", t.0, t.1)), "disconnect": f.disconnects.first().map(|d| d.0.clone()), "result": run.result.kind()});
        (case.class.clone(), sample, findings, f.transfers.len(), f.disconnects.len())
    });
    for (i, (class, sample, findings, transfers, disconnects)) in results.into_iter().enumerate() {
        report.eval(Some(&class));
        if i % 211 == 0 {
            report.sample(sample);
        }
        report.count("Transfers observed and compared with the chosen target", transfers as u64);
        report.count("Disconnects observed and compared with the localization table", disconnects as u64);
        for (fi, w) in findings {
            report.violation(&fi.signature, &fi.what, w);
        }
    }
}
