//! C02 — authentication is skipped only for a valid, unexpired, same-IP signed cookie.

use crate::cookie::{self, Class, RELATED_IPS, WRONG_SHAPES};
use crate::mk::{self, AUTH_KEY, facts};
use crate::scenario::*;
use serde_json::json;
use std::time::Duration;
use vp_common::report::par_map;
use vp_common::{Cli, Report, Rng, Tier};
use vp_sim::client::{Act, CookieAnswer};

#[derive(Clone, Debug)]
struct Case {
    sc: Scenario,
    class: String,
    accept: bool,
    full: bool,
    claimed: Ident,
    cookie_ident: Ident,
    service_ident: Option<Ident>,
}

struct Ctx {
    intent: Intent,
    server_secret: Option<Vec<u8>>,
    expiry: Option<u64>,
    client_addr: std::net::SocketAddr,
}

fn make_case(rng: &mut Rng, ctx: &Ctx, class: Class, full: bool, service_ok: bool) -> Case {
    let claimed = mk::ident(rng, "claimed");
    let cookie_ident = mk::ident(rng, "cookie");
    let service_ident = mk::ident(rng, "vouched");
    let np = rng.below(3) as usize;
    let cookie_props = mk::props(rng, np);
    let sign_secret = ctx.server_secret.clone().unwrap_or_else(|| b"a-secret-the-server-does-not-have".to_vec());
    let expiry = ctx.expiry.unwrap_or(6 * 3600);
    let ck = cookie::build(rng, class, &sign_secret, &ctx.client_addr, expiry, &cookie_ident, &cookie_props);
    let accept = cookie::accept(ctx.intent, &ctx.server_secret, true, &ck);
    let p = ScriptParams {
        intent: ctx.intent,
        address: "hub.example.com",
        port: 25565,
        protocol: 771,
        claimed: &claimed,
        locale: "en_us",
        ping_payload: 0,
        client_info_delay: Duration::ZERO,
    };
    let mut plan = default_plan(&p, mk::secret16(rng));
    plan.cookies = vec![(AUTH_KEY.to_string(), ck.payload.clone())];
    // a returning client also presents a session cookie (unsigned, its own to choose): that has
    // no bearing on whether the authentication cookie is acceptable
    if rng.chance(1, 2) {
        let session = serde_json::to_vec(&json!({"id": uuid_string(rng.u64() as u128), "server_address": "hub.example.com", "server_port": 25565})).expect("json");
        plan.cookies.push((mk::SESSION_KEY.to_string(), Some(session)));
    }
    if !full {
        // the flag is inside the Encryption Request: stop there (no RSA needed)
        plan.script = vec![
            plan.script[0].clone(),
            plan.script[1].clone(),
            Act::AwaitPkt { name: "EncryptionRequest", nth: 1 },
            Act::Close,
            Act::AwaitClose,
        ];
    }
    let adapters = mk::routing_adapters(if service_ok { Some((&service_ident, &[])) } else { None }, mk::targets(rng, 2));
    let cfg = ServerCfg { secret: ctx.server_secret.clone(), expiry: ctx.expiry, client_addr: ctx.client_addr, max_frame: None };
    let class_label = format!(
        "{}/{}/expiry-{}/{}{}",
        ctx.intent.name(),
        if ctx.server_secret.is_some() { "secret" } else { "nosecret" },
        ctx.expiry.map(|e| e.to_string()).unwrap_or_else(|| "default".into()),
        ck.class.label(),
        if matches!(ck.class, Class::Aged(_)) { format!("({})", ck.age) } else { String::new() },
    );
    Case {
        sc: default_scenario(&class_label, plan, adapters, cfg),
        class: class_label,
        accept,
        full,
        claimed,
        cookie_ident,
        service_ident: if service_ok { Some(service_ident) } else { None },
    }
}

fn generate(cli: &Cli) -> (Vec<Case>, bool) {
    let mut out = vec![];
    let bases = cli.scaled(cli.tier.pick(1, 3));
    let flip_stride = if cli.tier == Tier::Quick { 8 } else { 1 };
    // every kind of client address (IPv4, IPv6, IPv6 embedding an IPv4 one) is seen in every tier; the
    // complete enumeration of truncations and flips is done for the first `bases` only
    for base in 0..bases.max(3) {
        let enumerate = base < bases;
        let mut rng = Rng::stream(cli.seed, 1000 + base);
        let v4: std::net::SocketAddr = mk::random_addr(&mut rng).parse().expect("addr");
        let client_addr: std::net::SocketAddr = match (base % 4, v4.ip()) {
            (1, _) => "[2001:db8:17::9]:51123".parse().expect("addr"),
            // a client whose IPv6 address embeds an IPv4 one (IPv4-compatible)
            (2, std::net::IpAddr::V4(a)) => std::net::SocketAddr::new(cookie::related_ip(std::net::IpAddr::V4(a), 0), v4.port()),
            _ => v4,
        };
        let main = Ctx { intent: Intent::Transfer, server_secret: Some(rng.bytes_between(1, 48)), expiry: None, client_addr };
        // length of a valid cookie in this context (to enumerate truncations and flips completely)
        let probe = make_case(&mut rng.clone(), &main, Class::Valid, false, true);
        let len = probe.sc.client.cookies[0].1.as_ref().map(|p| p.len()).unwrap_or(0);
        for n in 0..if enumerate { len } else { 0 } {
            out.push(make_case(&mut rng, &main, Class::Truncated(n), n % 61 == 0, true));
        }
        let offset = (cli.seed as usize + base as usize) % flip_stride;
        for bit in (offset..if enumerate { len * 8 } else { 0 }).step_by(flip_stride) {
            out.push(make_case(&mut rng, &main, Class::BitFlip(bit), bit % 509 == 0, true));
        }
        let singles = |rng: &mut Rng, ctx: &Ctx, out: &mut Vec<Case>| {
            let mut classes = vec![
                Class::Absent,
                Class::Empty,
                Class::Valid,
                Class::ValidOtherPort,
                Class::OtherSecret,
                Class::OtherIp("198.51.100.77:40000".into()),
                Class::OtherIp("[2001:db8:99::1]:40000".into()),
                Class::SignedGarbage,
                Class::SignedGarbage,
                Class::ShortRandom(31),
                Class::ShortRandom(32),
                Class::ShortRandom(33),
            ];
            for i in 0..WRONG_SHAPES {
                classes.push(Class::SignedWrongShape(i));
            }
            for i in 0..RELATED_IPS {
                classes.push(Class::RelatedIp(i));
            }
            let e = ctx.expiry.unwrap_or(6 * 3600) as i64;
            if e == 0 {
                classes.retain(|c| !matches!(c, Class::Valid | Class::ValidOtherPort));
                classes.extend([Class::Aged(3600), Class::Aged(-3600), Class::Aged(20)]);
            } else {
                classes.extend([Class::Aged(-3600), Class::Aged(0), Class::Aged(e - e.min(600).max(20) / 2), Class::Aged(e + e.min(600).max(20) / 2 + 10), Class::Aged(10 * e)]);
            }
            for c in classes {
                for service_ok in [true, false] {
                    out.push(make_case(rng, ctx, c.clone(), true, service_ok));
                }
            }
        };
        if !enumerate {
            singles(&mut rng, &main, &mut out);
            continue;
        }
        for expiry in [None, Some(60), Some(0)] {
            for (intent, secret) in [
                (Intent::Transfer, main.server_secret.clone()),
                (Intent::Login, main.server_secret.clone()),
                (Intent::Transfer, None),
                (Intent::Login, None),
            ] {
                let ctx = Ctx { intent, server_secret: secret, expiry, client_addr };
                singles(&mut rng, &ctx, &mut out);
            }
        }
        // "never expires", written as the largest number there is (and one just short of it): the sum
        // of timestamp and expiry does not fit into 64 bits
        for expiry in [u64::MAX, u64::MAX - 1_000_000_000, 1u64 << 63] {
            let ctx = Ctx { intent: Intent::Transfer, server_secret: main.server_secret.clone(), expiry: Some(expiry), client_addr };
            for class in [Class::Valid, Class::ValidOtherPort, Class::Aged(3600), Class::Aged(400 * 24 * 3600), Class::OtherSecret, Class::OtherIp("198.51.100.77:40000".into()), Class::Absent] {
                for service_ok in [true, false] {
                    out.push(make_case(&mut rng, &ctx, class.clone(), true, service_ok));
                }
            }
        }
    }
    (out, flip_stride == 1)
}

struct Finding {
    signature: String,
    what: String,
    detail: serde_json::Value,
}

fn check(case: &Case, run: &Run) -> Vec<Finding> {
    let f = facts(run);
    let mut out = vec![];
    let mut bad = |sig: String, what: String, detail: serde_json::Value| out.push(Finding { signature: sig, what, detail });
    // strip the expiry and age decoration for a stable signature
    let shape: String = case.class.split('/').filter(|p| !p.starts_with("expiry-")).map(|p| p.split('(').next().unwrap_or(p)).collect::<Vec<_>>().join("/");
    match f.enc_flag {
        None => bad(
            format!("no-encryption-request/{shape}/{}", run.result.kind()),
            format!("the client was never told whether to authenticate: connection ended with {} before the Encryption Request", run.result.kind()),
            json!({"result": format!("{:?}", run.result)}),
        ),
        Some(should_authenticate) => {
            if should_authenticate == case.accept {
                bad(
                    format!("flag-mismatch/{shape}/{}", if case.accept { "should-skip" } else { "should-authenticate" }),
                    format!("should_authenticate={should_authenticate} but the acceptance conditions {}", if case.accept { "all hold" } else { "do not all hold" }),
                    json!({}),
                );
            }
        }
    }
    if case.full && f.enc_flag.is_some() {
        if case.accept {
            // identity must be exactly the cookie's
            if let Some((uuid, name)) = &f.login_success
                && (*uuid != case.cookie_ident.uuid || *name != case.cookie_ident.name)
            {
                bad(format!("accepted-cookie-identity/{shape}"), format!("Login Success carries {name}, not the identity inside the accepted cookie"), json!({"expected": format!("{:?}", case.cookie_ident)}));
            }
            if f.login_success.is_none() {
                bad(format!("accepted-cookie-no-login/{shape}"), format!("valid cookie but no Login Success ({})", run.result.kind()), json!({}));
            }
        } else {
            // nothing may be granted without the service's positive verdict
            let ls = run.client.first("LoginSuccess").map(|r| r.t_ns);
            match (&case.service_ident, ls) {
                (None, Some(_)) => bad(format!("granted-without-verdict/{shape}"), "Login Success although the authentication service failed".into(), json!({})),
                (Some(id), Some(t)) => {
                    let asked = f.auth_calls.iter().any(|c| c.done_ns.map(|d| d <= t).unwrap_or(false));
                    if !asked {
                        bad(format!("granted-before-verdict/{shape}"), "Login Success without a completed authenticate() call before it".into(), json!({}));
                    }
                    if let Some((uuid, name)) = &f.login_success
                        && (*uuid != id.uuid || *name != id.name)
                    {
                        let which = if *name == case.cookie_ident.name { "cookie" } else if *name == case.claimed.name { "claimed" } else { "other" };
                        bad(format!("rejected-cookie-identity-used/{shape}/{which}"), format!("Login Success carries {name} ({which}) instead of the service's answer"), json!({}));
                    }
                }
                (Some(_), None) => bad(format!("service-ok-no-login/{shape}"), format!("service vouched but no Login Success ({})", run.result.kind()), json!({})),
                (None, None) => {}
            }
        }
    }
    out
}


type BulkRow = (String, String, Option<bool>, bool, bool, serde_json::Value, Vec<(Finding, serde_json::Value)>);

fn bulk(cli: &Cli, cases: Vec<Case>) -> Vec<BulkRow> {
    par_map(cases, cli.threads(), |_, case| {
        let run = run(&case.sc);
        let findings: Vec<(Finding, serde_json::Value)> = check(case, &run).into_iter().map(|f| { let w = witness(&case.sc, &run, f.detail.clone()); (f, w) }).collect();
        let detail = match case.sc.client.cookies[0].1.as_ref() { Some(p) => p.len(), None => 0 };
        let sample = json!({"case": case.class, "cookie_len": detail, "expected_accept": case.accept, "should_authenticate_observed": run.client.enc_request.as_ref().map(|e| e.2), "clientbound": run.client.names(), "result": run.result.kind()});
        (format!("{}#{}", case.class, detail), case.class.clone(), run.client.enc_request.as_ref().map(|e| e.2), case.accept, case.full, sample, findings)
    })
}

/// Cookies issued by the server itself must expire too: fresh authentication with expiry 1 s, a
/// real wait, then the stored cookie is presented from the same IP (must be told to authenticate);
/// control: the same without the wait and with the default expiry (must be accepted).
fn issued_cookie_histories(cli: &Cli) -> Vec<(String, bool, Vec<(Finding, serde_json::Value)>, serde_json::Value)> {
    let n = cli.scaled(cli.tier.pick(2, 6));
    let items: Vec<u64> = (0..4 * n).collect();
    par_map(items, 8, |_, i| {
        // 0: expiry 1 s, presented after 3 s; 1: default expiry, presented at once; 2 and 3: the
        // router that checks is configured differently from the one that issued (a changed setting,
        // two instances): only the checking router's own setting counts
        let variant = i % 4;
        let aged = variant == 0 || variant == 2;
        let mut rng = Rng::stream(cli.seed, 25_000 + i);
        let claimed = mk::ident(&mut rng, "claimed");
        let vouched = mk::ident(&mut rng, "vouched");
        let secret = rng.bytes_between(8, 32);
        let addr: std::net::SocketAddr = mk::random_addr(&mut rng).parse().expect("addr");
        let (issuing_expiry, checking_expiry) = match variant {
            0 => (Some(1), Some(1)),
            1 => (None, None),
            2 => (None, Some(1)),
            _ => (Some(1), None),
        };
        let build = |intent: Intent, cookie: Option<Vec<u8>>, port_shift: u16, seed: u64, expiry: Option<u64>| {
            let p = ScriptParams { intent, address: "hub.example.com", port: 25565, protocol: 771, claimed: &claimed, locale: "en_us", ping_payload: 0, client_info_delay: Duration::ZERO };
            let mut plan = default_plan(&p, mk::secret16(&mut Rng::new(seed)));
            plan.cookies = vec![(AUTH_KEY.to_string(), cookie)];
            let adapters = mk::routing_adapters(Some((&vouched, &[])), mk::targets(&mut Rng::new(seed), 2));
            let cfg = ServerCfg { secret: Some(secret.clone()), expiry, client_addr: std::net::SocketAddr::new(addr.ip(), addr.port().wrapping_add(port_shift).max(1)), max_frame: None };
            default_scenario("issued-cookie-history", plan, adapters, cfg)
        };
        let sc1 = build(Intent::Login, None, 0, i + 1, issuing_expiry);
        let r1 = run(&sc1);
        let issued = facts(&r1).store_cookies.iter().find(|c| c.0 == AUTH_KEY).map(|c| c.1.clone());
        let class = format!("issued-cookie/{}", ["presented-after-expiry", "presented-at-once", "presented-after-the-checking-routers-shorter-expiry", "presented-within-the-checking-routers-longer-expiry"][variant as usize]);
        let mut findings = vec![];
        let Some(cookie) = issued else {
            let f = Finding { signature: "issued-cookie-history/no-cookie-issued".into(), what: format!("fresh authentication with a secret did not issue a cookie ({})", r1.result.kind()), detail: json!({}) };
            let w = witness(&sc1, &r1, json!({}));
            return (class, aged, vec![(f, w)], json!({}));
        };
        if variant != 1 {
            std::thread::sleep(Duration::from_millis(3200));
        }
        let mut sc2 = build(Intent::Transfer, Some(cookie), 77, i + 1000, checking_expiry);
        // the flag is all that is needed
        sc2.client.script = vec![sc2.client.script[0].clone(), sc2.client.script[1].clone(), Act::AwaitPkt { name: "EncryptionRequest", nth: 1 }, Act::Close, Act::AwaitClose];
        let r2 = run(&sc2);
        let flag = r2.client.enc_request.as_ref().map(|e| e.2);
        match (aged, flag) {
            (true, Some(false)) => findings.push(Finding { signature: if variant == 0 { "flag-mismatch/transfer/secret/issued-cookie-after-expiry/should-authenticate".into() } else { "flag-mismatch/transfer/secret/issued-under-longer-expiry/should-authenticate".to_string() }, what: "a cookie issued by the server 3 s ago was accepted although the configured expiry (of the router that checks it) is 1 s".into(), detail: json!({}) }),
            (false, Some(true)) if variant == 3 => findings.push(Finding { signature: "flag-mismatch/transfer/secret/issued-under-shorter-expiry/should-skip".into(), what: "a cookie issued 3 s ago by a router configured with expiry 1 s was not accepted by a router whose configured expiry is six hours".into(), detail: json!({}) }),
            (false, Some(true)) => findings.push(Finding { signature: "flag-mismatch/transfer/secret/issued-cookie-at-once/should-skip".into(), what: "a cookie issued by the server a moment ago was not accepted from the same IP".into(), detail: json!({}) }),
            (_, None) => findings.push(Finding { signature: format!("no-encryption-request/transfer/secret/issued-cookie/{}", r2.result.kind()), what: "connection ended before the Encryption Request".into(), detail: json!({}) }),
            _ => {}
        }
        let sample = json!({"case": class, "should_authenticate_observed": flag, "waited_s": if variant != 1 { 3.2 } else { 0.0 }, "issuing_expiry_s": issuing_expiry, "checking_expiry_s": checking_expiry});
        let ws = findings.into_iter().map(|f| { let w = witness(&sc2, &r2, f.detail.clone()); (f, w) }).collect();
        (class, aged, ws, sample)
    })
}

/// The age of a cookie counts when it is presented, not when the connection began: a cookie 3 s
/// short of its expiry, presented by a client that takes 6 s (real time) to answer the cookie
/// request, is expired when it arrives. Control: the same cookie answered at once is accepted.
fn stalled_answer_histories(cli: &Cli) -> Vec<(String, bool, Vec<(Finding, serde_json::Value)>, serde_json::Value)> {
    let n = cli.scaled(cli.tier.pick(1, 4));
    let items: Vec<u64> = (0..2 * n).collect();
    par_map(items, 8, |_, i| {
        let stalled = i % 2 == 0;
        let mut rng = Rng::stream(cli.seed, 26_000 + i);
        let expiry = *rng.pick(&[60u64, 600, 6 * 3600]);
        let ctx = Ctx { intent: Intent::Transfer, server_secret: Some(rng.bytes_between(8, 32)), expiry: if expiry == 6 * 3600 { None } else { Some(expiry) }, client_addr: mk::random_addr(&mut rng).parse().expect("addr") };
        let mut case = make_case(&mut rng, &ctx, Class::Aged(expiry as i64 - 3), false, true);
        if stalled {
            // the first request asks for the session cookie, the second for the authentication cookie
            case.sc.client.cookie_answers = vec![CookieAnswer::Normal, CookieAnswer::NormalAfterReal(Duration::from_millis(6000))];
        }
        let class = format!("cookie-3s-before-expiry/{}", if stalled { "answered-after-6s" } else { "answered-at-once" });
        let built = std::time::Instant::now();
        let r = run(&case.sc);
        let took = built.elapsed();
        let flag = r.client.enc_request.as_ref().map(|e| e.2);
        let mut findings = vec![];
        match (stalled, flag) {
            (true, Some(false)) => findings.push(Finding { signature: "flag-mismatch/transfer/secret/expired-while-awaited/should-authenticate".into(), what: format!("a cookie that was {} s old (expiry {expiry} s) when it arrived was accepted: its age was judged by a clock read before the server waited for it", expiry + 3), detail: json!({}) }),
            // a loaded machine may take longer than the margin: then the cookie did expire and nothing can be said
            (false, Some(true)) if took < Duration::from_millis(2500) => findings.push(Finding { signature: "flag-mismatch/transfer/secret/aged/should-skip".into(), what: format!("a cookie 3 s short of its expiry ({expiry} s), answered at once, was not accepted"), detail: json!({}) }),
            (_, None) => findings.push(Finding { signature: format!("no-encryption-request/transfer/secret/aged/{}", r.result.kind()), what: "connection ended before the Encryption Request".into(), detail: json!({}) }),
            _ => {}
        }
        let sample = json!({"case": class, "expiry_s": expiry, "should_authenticate_observed": flag, "real_ms": took.as_millis() as u64, "cookie_requests_answered": r.client.sent.iter().filter(|s| s.label.starts_with("CookieResponse")).count()});
        let ws = findings.into_iter().map(|f| { let w = witness(&case.sc, &r, f.detail.clone()); (f, w) }).collect();
        (class, stalled, ws, sample)
    })
}

/// "Not older than the configured expiry": a cookie whose age is exactly the expiry (in the whole
/// seconds cookies are stamped in) is still good, one second more is not - also for an expiry of 0,
/// where only a cookie of this very second counts. The wall clock decides, so each case starts early
/// in a second and is only judged if it was over well within that second.
fn boundary_histories(cli: &Cli) -> Vec<(String, Vec<(Finding, serde_json::Value)>, serde_json::Value)> {
    let n = cli.scaled(cli.tier.pick(1, 3));
    let mut out = vec![];
    for i in 0..n {
        for (expiry, age) in [(0u64, 0i64), (0, 1), (60, 60), (60, 61), (3, 3)] {
            let mut rng = Rng::stream(cli.seed, 28_000 + i * 10 + expiry + age as u64);
            // wait for the first tenth of a wall-clock second
            loop {
                let sub = std::time::SystemTime::now().duration_since(std::time::UNIX_EPOCH).map(|d| d.subsec_millis()).unwrap_or(0);
                if (30..=150).contains(&sub) {
                    break;
                }
                std::thread::sleep(Duration::from_millis(if sub < 30 { 30 - sub as u64 } else { 1030 - sub as u64 }));
            }
            let started = std::time::Instant::now();
            let ctx = Ctx { intent: Intent::Transfer, server_secret: Some(rng.bytes_between(8, 32)), expiry: Some(expiry), client_addr: mk::random_addr(&mut rng).parse().expect("addr") };
            let case = make_case(&mut rng, &ctx, Class::Aged(age), false, true);
            let r = run(&case.sc);
            let took = started.elapsed();
            let flag = r.client.enc_request.as_ref().map(|e| e.2);
            let class = format!("cookie-at-the-boundary/expiry-{expiry}s/age-{age}s");
            let mut findings = vec![];
            let expect_skip = age as u64 <= expiry;
            if took < Duration::from_millis(600) {
                match (expect_skip, flag) {
                    (true, Some(true)) => findings.push(Finding { signature: "flag-mismatch/transfer/secret/aged-exactly-the-expiry/should-skip".into(), what: format!("a cookie exactly {age} s old was refused although the configured expiry is {expiry} s (not older than the expiry)"), detail: json!({}) }),
                    (false, Some(false)) => findings.push(Finding { signature: "flag-mismatch/transfer/secret/aged-one-second-beyond/should-authenticate".into(), what: format!("a cookie {age} s old was accepted although the configured expiry is {expiry} s"), detail: json!({}) }),
                    (_, None) => findings.push(Finding { signature: format!("no-encryption-request/transfer/secret/aged/{}", r.result.kind()), what: "connection ended before the Encryption Request".into(), detail: json!({}) }),
                    _ => {}
                }
            }
            let sample = json!({"case": class, "should_authenticate_observed": flag, "judged": took < Duration::from_millis(600), "real_ms": took.as_millis() as u64});
            let ws = findings.into_iter().map(|f| { let w = witness(&case.sc, &r, f.detail.clone()); (f, w) }).collect();
            out.push((class, ws, sample));
        }
    }
    out
}

/// What one connection accepted must not vouch for anything on the next: a genuine cookie is
/// presented and accepted, then - same process, same listener state - the same tag arrives in front
/// of an altered body (one bit, or another player's name). Every connection verifies for itself.
fn replayed_tag_histories(cli: &Cli) -> Vec<(String, Vec<(Finding, serde_json::Value)>, serde_json::Value)> {
    let n = cli.scaled(cli.tier.pick(6, 60));
    let items: Vec<u64> = (0..n).collect();
    par_map(items, cli.threads(), |_, i| {
        let mut rng = Rng::stream(cli.seed, 27_000 + i);
        let ctx = Ctx { intent: Intent::Transfer, server_secret: Some(rng.bytes_between(8, 32)), expiry: None, client_addr: mk::random_addr(&mut rng).parse().expect("addr") };
        let first = make_case(&mut rng, &ctx, Class::Valid, false, true);
        let r1 = run(&first.sc);
        let flag1 = r1.client.enc_request.as_ref().map(|e| e.2);
        let genuine = first.sc.client.cookies.iter().find(|c| c.0 == AUTH_KEY).and_then(|c| c.1.clone()).unwrap_or_default();
        let mut findings = vec![];
        let class = "replayed-tag/genuine-then-altered-body".to_string();
        if flag1 != Some(false) || genuine.len() < 40 {
            findings.push((Finding { signature: "flag-mismatch/transfer/secret/valid/should-skip".into(), what: "a valid cookie was not accepted (first connection of a replay history)".into(), detail: json!({}) }, witness(&first.sc, &r1, json!({}))));
            return (class, findings, json!({}));
        }
        let mut observed = vec![];
        for variant in 0..3 {
            let mut altered = genuine.clone();
            match variant {
                // one bit somewhere in the body
                0 => {
                    let pos = 32 + rng.usize_below(altered.len() - 32);
                    altered[pos] ^= 1 << rng.below(8);
                }
                // another player's name of the same length (still well-formed JSON)
                1 => {
                    let name = first.cookie_ident.name.as_bytes();
                    if let Some(at) = altered.windows(name.len()).position(|w| w == name) {
                        let last = at + name.len() - 1;
                        altered[last] = if altered[last] == b'x' { b'y' } else { b'x' };
                    }
                }
                // the body cut short by one byte
                _ => {
                    altered.pop();
                }
            }
            let mut second = make_case(&mut rng, &ctx, Class::Absent, false, true);
            second.sc.client.cookies = vec![(AUTH_KEY.to_string(), Some(altered))];
            let r2 = run(&second.sc);
            let flag2 = r2.client.enc_request.as_ref().map(|e| e.2);
            observed.push(flag2);
            match flag2 {
                Some(false) => findings.push((
                    Finding { signature: "flag-mismatch/transfer/secret/replayed-tag-altered-body/should-authenticate".into(), what: "after a genuine cookie had been accepted on an earlier connection, the same tag in front of an altered body was accepted without authentication".into(), detail: json!({"variant": variant}) },
                    witness(&second.sc, &r2, json!({"variant": variant})),
                )),
                None => findings.push((Finding { signature: format!("no-encryption-request/transfer/secret/replayed-tag-altered-body/{}", r2.result.kind()), what: "connection ended before the Encryption Request".into(), detail: json!({}) }, witness(&second.sc, &r2, json!({})))),
                Some(true) => {}
            }
        }
        (class, findings, json!({"case": "replayed tag", "first_connection_should_authenticate": flag1, "altered_bodies_should_authenticate": observed}))
    })
}

pub fn run_prop(cli: &Cli) -> i32 {
    let mut report = Report::new(
        cli,
        "exploration",
        "per base cookie: every truncation length, every (quick: every 8th, rotating with the seed) single-bit flip of tag and body, plus absent/empty/valid/other port/other secret/other IP/aged (±margin around expiry, future, 10x)/signed garbage/signed wrong-shape JSON/short random, each under intent{transfer,login} × secret{set,none} × expiry{default,60,0}; the verdict is read from the should-authenticate flag of the Encryption Request, a sample of every class runs to the end; distinct = (context, class, flipped byte or truncation length)",
    );
    report.assume("cookie ages within ±10 s of the expiry boundary are not generated (the code reads the wall clock), except in the stalled-answer histories: 3 s before the expiry, answered at once (judged only if the run took < 2.5 s) or after 6 s of real time");
    report.assume("cookie timestamps beyond the present are generated up to one hour ahead only");
    let (cases, all_flips) = generate(cli);
    // the real-time histories run beside the bulk of the cases
    for (class, findings, sample) in replayed_tag_histories(cli) {
        report.eval(Some(&class));
        report.count("altered bodies presented behind a tag that an earlier connection had accepted", 3);
        if report.wants_sample() {
            report.sample(sample);
        }
        for (fi, w) in findings {
            report.violation(&fi.signature, &fi.what, w);
        }
    }
    // (before the bulk starts: these want a quiet moment, each takes a few milliseconds)
    for (class, findings, sample) in boundary_histories(cli) {
        report.eval(Some(&class));
        report.count("cookies aged exactly the expiry, or one second more, presented early in a wall-clock second", 1);
        report.sample(sample);
        for (fi, w) in findings {
            report.violation(&fi.signature, &fi.what, w);
        }
    }
    let (histories, stalled, results) = std::thread::scope(|sc| {
        let h = sc.spawn(|| issued_cookie_histories(cli));
        let h2 = sc.spawn(|| stalled_answer_histories(cli));
        let r = bulk(cli, cases);
        (h.join().unwrap_or_default(), h2.join().unwrap_or_default(), r)
    });
    for (class, was_stalled, findings, sample) in stalled {
        report.eval(Some(&class));
        report.count(if was_stalled { "cookies that expired while the server waited for them" } else { "cookies 3 s short of their expiry answered at once" }, 1);
        report.sample(sample);
        for (fi, w) in findings {
            report.violation(&fi.signature, &fi.what, w);
        }
    }
    for (class, aged, findings, sample) in histories {
        report.eval(Some(&class));
        report.count(if aged { "server-issued cookies presented after their expiry" } else { "server-issued cookies presented at once" }, 1);
        if report.wants_sample() {
            report.sample(sample);
        }
        for (fi, w) in findings {
            report.violation(&fi.signature, &fi.what, w);
        }
    }
    let mut n = 0usize;
    for (key, class, flag, accept, full, sample, findings) in results {
        n += 1;
        // distinct: class + payload length; bit flips all have the same length, so add the ordinal
        let key = if class.contains("bitflip") { format!("{key}@{n}") } else { key };
        report.eval(Some(&key));
        if n % 701 == 0 || (full && accept && report.wants_sample()) {
            report.sample(sample);
        }
        match flag {
            Some(true) => report.count("Encryption Requests telling the client to authenticate", 1),
            Some(false) => report.count("Encryption Requests skipping authentication", 1),
            None => report.count("connections that ended before the Encryption Request", 1),
        }
        if full {
            report.count("cases run to the end of the connection", 1);
        }
        for (fi, w) in findings {
            report.violation(&fi.signature, &fi.what, w);
        }
    }
    report.set("all_single_bit_flips_and_truncations_of_base_cookies", json!(all_flips));
    report.finish()
}
