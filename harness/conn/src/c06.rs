//! C06 — packets are only exchanged in protocol order; status and login never mix.

use crate::mk::{self, AUTH_KEY, facts};
use crate::scenario::*;
use passage_adapters::{ServerPlayer, ServerPlayers, ServerStatus, ServerVersion};
use serde_json::{Value, json};
use std::time::Duration;
use vp_common::refcodec::Pkt;
use vp_common::report::par_map;
use vp_common::{Cli, Report, Rng, Tier};
use vp_sim::client::{Act, CookieAnswer, Echo, EncVariant, Out};
use vp_sim::recadapters::{Call, Outcome};

/// The grammar of the statement as an acceptor over clientbound packet names (prefix closed).
/// Returns the index of the first offending packet.
pub fn accept_word(intent: Option<Intent>, names: &[&str]) -> Result<(), (usize, String)> {
    match intent {
        None => {
            if let Some(n) = names.first() {
                return Err((0, format!("{n} sent although the handshake named no valid next state")));
            }
            Ok(())
        }
        Some(Intent::Status) => {
            let allowed = ["StatusResponse", "StatusPong"];
            for (i, n) in names.iter().enumerate() {
                if i >= 2 || *n != allowed[i] {
                    return Err((i, format!("{n} at position {i} of a status exchange")));
                }
            }
            Ok(())
        }
        Some(_) => {
            // 0: want session cookie request; 1: auth cookie request or encryption request;
            // 2: encryption request; 3: login success; 4: configuration; 5: finished
            let mut st = 0;
            for (i, n) in names.iter().enumerate() {
                st = match (st, *n) {
                    (0, "LoginCookieRequest") => 1,
                    (1, "LoginCookieRequest") => 2,
                    (1 | 2, "EncryptionRequest") => 3,
                    (3, "LoginSuccess") => 4,
                    (4, "ConfKeepAliveOut" | "StoreCookie") => 4,
                    (4, "Transfer" | "ConfDisconnect") => 5,
                    (5, _) => return Err((i, format!("{n} after the final Transfer/Disconnect"))),
                    _ => return Err((i, format!("{n} out of order (state {st})"))),
                };
            }
            Ok(())
        }
    }
}

fn status_value(rng: &mut Rng) -> (Option<ServerStatus>, Value) {
    if rng.chance(1, 4) {
        return (None, Value::Null);
    }
    // (names and texts with characters of two, three and four bytes: a length counts bytes)
    let name = match rng.below(4) { 0 => format!("Passage §a{} — ünï", rng.ascii_name(1, 6)), 1 => format!("世界 {} 😀", rng.ascii_name(1, 4)), _ => format!("Passage {}", rng.ascii_name(1, 6)) };
    let protocol = rng.range(-1, 800) as i32;
    let players = if rng.bool() {
        let sample = if rng.bool() { Some(vec![ServerPlayer { name: rng.ascii_name(3, 8), id: uuid_string(rng.u64() as u128) }]) } else { None };
        Some(ServerPlayers { online: rng.u32() % 1000, max: rng.u32() % 5000, sample })
    } else {
        None
    };
    let description_json = if rng.bool() { Some(json!({"text": if rng.bool() { format!("motd {}", rng.ascii_name(0, 12)) } else { format!("§6motd — {} · Grüße 世界", rng.ascii_name(0, 12)) }, "color": "gold"})) } else { None };
    // a real server icon is 10-30 KB of base64: the frame then needs a 3-byte length prefix
    let favicon = match rng.below(6) {
        0 | 1 => Some(format!("data:image/png;base64,{}", rng.ascii_name(4, 20))),
        2 => Some(format!("data:image/png;base64,{}", rng.ascii_name(16_300, 16_500))),
        3 => Some(format!("data:image/png;base64,{}", rng.ascii_name(20_000, 30_000))),
        // an icon nobody shrank: the answer is longer than the 32767 a client reads as one string and
        // than the 65535 a 16-bit length holds; what the status service says is still what is sent
        4 => Some(format!("data:image/png;base64,{}", rng.ascii_name(33_000, 70_000))),
        _ => None,
    };
    let secure = if rng.bool() { Some(rng.bool()) } else { None };
    let status = ServerStatus {
        version: ServerVersion { name: name.clone(), protocol },
        players: players.clone(),
        description: description_json.as_ref().map(|d| serde_json::value::RawValue::from_string(d.to_string()).expect("raw")),
        favicon: favicon.clone(),
        enforces_secure_chat: secure,
    };
    let expected = json!({
        "version": {"name": name, "protocol": protocol},
        "players": players.map(|p| json!({"online": p.online, "max": p.max, "sample": p.sample.map(|s| s.iter().map(|x| json!({"name": x.name, "id": x.id})).collect::<Vec<_>>())})),
        "description": description_json,
        "favicon": favicon,
        "enforcesSecureChat": secure,
    });
    (Some(status), expected)
}

/// Serverbound packets of every phase with natural bodies, plus unknown ids.
fn deviants(rng: &mut Rng) -> Vec<(String, Pkt)> {
    vec![
        ("Handshake".into(), Pkt::Handshake { protocol: 770, address: "x.example".into(), port: 25565, next_state: 2 }),
        ("StatusRequest".into(), Pkt::StatusRequest),
        ("StatusPing".into(), Pkt::StatusPing { payload: rng.u64() }),
        ("LoginStart".into(), Pkt::LoginStart { name: "Intruder".into(), uuid: rng.u64() as u128 }),
        ("EncryptionResponse".into(), Pkt::EncryptionResponse { shared_secret: rng.bytes(128), verify_token: rng.bytes(128) }),
        ("LoginPluginResponse".into(), Pkt::LoginPluginResponse { raw: vec![1, 0] }),
        ("LoginAcknowledged".into(), Pkt::LoginAcknowledged),
        ("LoginCookieResponse".into(), Pkt::LoginCookieResponse { key: "passage:session".into(), payload: None }),
        ("ClientInformation".into(), client_information("en_us")),
        ("ConfCookieResponse".into(), Pkt::ConfCookieResponse { raw: vec![3, b'a', b':', b'b', 0] }),
        ("ConfPluginMessage".into(), Pkt::ConfPluginMessageIn { raw: b"\x0fminecraft:brandvanilla".to_vec() }),
        ("AckFinishConfiguration".into(), Pkt::AckFinishConfiguration),
        ("ConfKeepAlive".into(), Pkt::ConfKeepAliveIn { id: rng.u64() }),
        ("ConfPong".into(), Pkt::ConfPong { id: 7 }),
        ("ResourcePackResponse".into(), Pkt::ResourcePackResponse { uuid: 1, result: 0 }),
        ("KnownPacks".into(), Pkt::KnownPacksIn { raw: vec![0] }),
        ("Unknown08".into(), Pkt::Unknown { id: 0x08, raw: vec![] }),
        ("Unknown10".into(), Pkt::Unknown { id: 0x10, raw: vec![1, 2, 3] }),
        ("Unknown7f".into(), Pkt::Unknown { id: 0x7f, raw: vec![] }),
        ("Unknown5ByteId".into(), Pkt::Unknown { id: -1, raw: vec![] }),
        ("UnknownMaxId".into(), Pkt::Unknown { id: i32::MAX, raw: vec![0] }),
        // ids whose first group looks like an expected id (0, 1, 3, 4) and that go on: 128, 129, 131, 132
        ("Unknown80".into(), Pkt::Unknown { id: 128, raw: vec![] }),
        ("Unknown81".into(), Pkt::Unknown { id: 129, raw: 7u64.to_be_bytes().to_vec() }),
        ("Unknown83".into(), Pkt::Unknown { id: 131, raw: vec![] }),
        ("Unknown84".into(), Pkt::Unknown { id: 132, raw: vec![0x0f, b'p', b'a', b's', b's', b'a', b'g', b'e', b':', b's', b'e', b's', b's', b'i', b'o', b'n', 0] }),
        ("Unknown4000".into(), Pkt::Unknown { id: 0x4000, raw: vec![] }),
        // a frame longer than the (default) maximum of 10 000 bytes: not the expected packet either
        ("OversizedFrame".into(), Pkt::Unknown { id: 0x7e, raw: vec![0xaa; 10_050] }),
    ]
}

#[derive(Clone, Debug, PartialEq)]
enum Kind {
    Baseline,
    /// single deviation in handshake/status/login: the packet at `position` is replaced (or
    /// preceded) by a packet with another id
    Deviation { position: String, before: bool },
    BadNextState(i32),
    ConfigWord,
    Blind,
    /// the authentication service answers with an error
    AuthFails,
    /// cookie accepted, Encryption Response with a wrong verify token
    InvalidResponse,
    /// the status service answers with an error: there is no answer to relay
    StatusFails,
}

#[derive(Clone, Debug)]
struct Case {
    sc: Scenario,
    class: String,
    kind: Kind,
    intent: Option<Intent>,
    status_expected: Value,
    ping: u64,
    /// names received in the undeviated run of the same base (for the prefix clause)
    honest_enc_response: bool,
}

struct Base {
    intent: Intent,
    with_secret: bool,
}

fn base_scenario(rng: &mut Rng, b: &Base) -> (Scenario, Value, u64) {
    base_scenario_for_host(rng, b, "order.example.org")
}

fn base_scenario_for_host(rng: &mut Rng, b: &Base, host: &str) -> (Scenario, Value, u64) {
    let claimed = mk::ident(rng, "claimed");
    let authed = mk::ident(rng, "vouched");
    let ping = rng.u64();
    let p = ScriptParams { intent: b.intent, address: host, port: 25565, protocol: 770, claimed: &claimed, locale: "en_us", ping_payload: ping, client_info_delay: Duration::from_secs(3) };
    let mut plan = default_plan(&p, mk::secret16(rng));
    // delay Login Acknowledged too, so that premature routing would be visible in the timestamps
    if let Some(pos) = plan.script.iter().position(|a| matches!(a, Act::Send { label, .. } if label == "LoginAcknowledged")) {
        plan.script.insert(pos, Act::Sleep(Duration::from_secs(2)));
    }
    plan.cookies = vec![(AUTH_KEY.to_string(), None)];
    let (status, expected) = status_value(rng);
    let mut adapters = mk::routing_adapters(Some((&authed, &[])), mk::targets(rng, 2));
    adapters.status = Outcome::Ok(status);
    adapters.discovery_latency = Duration::from_secs(20);
    let cfg = ServerCfg { secret: if b.with_secret { Some(b"order-secret".to_vec()) } else { None }, ..Default::default() };
    (default_scenario("base", plan, adapters, cfg), expected, ping)
}

fn replace_send(script: &mut Vec<Act>, label: &str, with: Vec<Act>) -> bool {
    let Some(pos) = script.iter().position(|a| match a {
        Act::Send { label: l, .. } => l == label,
        Act::EncryptionResponse => label == "EncryptionResponse",
        _ => false,
    }) else {
        return false;
    };
    script.splice(pos..=pos, with);
    true
}

fn generate(cli: &Cli) -> Vec<Case> {
    let mut out = vec![];
    let mut rng = Rng::stream(cli.seed, 60_000);
    let bases = [
        Base { intent: Intent::Status, with_secret: false },
        Base { intent: Intent::Login, with_secret: false },
        Base { intent: Intent::Login, with_secret: true },
        Base { intent: Intent::Transfer, with_secret: false },
        Base { intent: Intent::Transfer, with_secret: true },
    ];
    for b in &bases {
        let bname = format!("{}{}", b.intent.name(), if b.with_secret { "+secret" } else { "" });
        // baseline(s)
        for _ in 0..cli.scaled(cli.tier.pick(4, 40)) {
            let (sc, status_expected, ping) = base_scenario(&mut rng, b);
            out.push(Case { sc, class: format!("{bname}/baseline"), kind: Kind::Baseline, intent: Some(b.intent), status_expected, ping, honest_enc_response: b.intent != Intent::Status });
        }
        // host names of every length up to the 255 the protocol allows, densely where the length
        // prefix of the handshake frame changes its form (one byte to two at 128) or reads like
        // something else (0xFE 0x01 = 254 is also how a pre-Netty "legacy ping" begins)
        {
            let mut lengths: Vec<usize> = vec![1, 2, 64, 200, 255];
            lengths.extend(114..=124);
            lengths.extend(if cli.tier == vp_common::Tier::Quick { 243..=249 } else { 201..=254 });
            for l in lengths {
                let host: String = (0..l).map(|i| if i % 9 == 8 { '.' } else { (b'a' + (i % 26) as u8) as char }).collect();
                let (sc, status_expected, ping) = base_scenario_for_host(&mut rng, b, &host);
                out.push(Case { sc, class: format!("{bname}/baseline/host-of-{l}-characters"), kind: Kind::Baseline, intent: Some(b.intent), status_expected, ping, honest_enc_response: b.intent != Intent::Status });
            }
        }
        if b.intent == Intent::Status {
            for _ in 0..3 {
                let (mut sc, status_expected, ping) = base_scenario(&mut rng, b);
                sc.adapters.status = Outcome::Err;
                out.push(Case { sc, class: format!("{bname}/status-service-fails"), kind: Kind::StatusFails, intent: Some(b.intent), status_expected, ping, honest_enc_response: false });
            }
        }
        if b.intent != Intent::Status {
            // the authentication service fails: nothing may follow the Encryption Request
            let (mut sc, status_expected, ping) = base_scenario(&mut rng, b);
            sc.adapters.auth = Outcome::Err;
            out.push(Case { sc, class: format!("{bname}/authentication-service-fails"), kind: Kind::AuthFails, intent: Some(b.intent), status_expected, ping, honest_enc_response: true });
        }
        if b.intent == Intent::Transfer && b.with_secret {
            // a valid cookie is presented, but the Encryption Response does not carry this
            // connection's verify token: Login Success must not be sent
            for enc in [EncVariant::WrongToken(rng.bytes(32)), EncVariant::FlippedToken, EncVariant::StaleToken, EncVariant::WrongToken(vec![])] {
                let (mut sc, status_expected, ping) = base_scenario(&mut rng, b);
                let id = mk::ident(&mut rng, "cookie");
                let ck = crate::cookie::build(&mut rng, crate::cookie::Class::Valid, sc.cfg.secret.as_deref().unwrap_or(b"x"), &sc.cfg.client_addr, 6 * 3600, &id, &[]);
                sc.client.cookies = vec![(AUTH_KEY.to_string(), ck.payload)];
                let label = enc.label();
                sc.client.enc = enc;
                out.push(Case { sc, class: format!("{bname}/valid-cookie/invalid-encryption-response-{label}"), kind: Kind::InvalidResponse, intent: Some(b.intent), status_expected, ping, honest_enc_response: false });
            }
        }
        // slow clients: a pause of more than one / two keep-alive periods before each client step
        // (nothing may be sent to the client out of order meanwhile, and the exchange still completes)
        {
            let (probe, _, _) = base_scenario(&mut rng, b);
            let steps: Vec<usize> = probe.client.script.iter().enumerate().filter(|(i, a)| *i > 0 && matches!(a, Act::Send { .. } | Act::EncryptionResponse)).map(|(i, _)| i).collect();
            for step in steps {
                for secs in [17u64, 33] {
                    let (mut sc, status_expected, ping) = base_scenario(&mut rng, b);
                    let what = match &sc.client.script[step] {
                        Act::Send { label, .. } => label.clone(),
                        _ => "EncryptionResponse".to_string(),
                    };
                    sc.client.script.insert(step, Act::Sleep(Duration::from_secs(secs)));
                    out.push(Case { sc, class: format!("{bname}/slow-before-{what}/{secs}s"), kind: Kind::Baseline, intent: Some(b.intent), status_expected, ping, honest_enc_response: b.intent != Intent::Status });
                }
            }
        }
        // a client that neither echoes nor reads: the timeout Disconnect is half written when routing
        // completes without a target - one Disconnect, and nothing after it
        if b.intent != Intent::Status {
            let build = |rng: &mut Rng| {
                let (mut sc, status_expected, ping) = base_scenario(rng, b);
                sc.client.echo = Echo::Never;
                sc.adapters.discovery = Outcome::Ok(vec![]);
                // Client Information is sent 5 s into the connection, the timeout falls due at 32 s
                sc.adapters.discovery_latency = Duration::from_secs(28);
                (sc, status_expected, ping)
            };
            let (probe_sc, _, _) = build(&mut rng.clone());
            let probe = run(&probe_sc);
            let off: usize = probe.client.received.iter().take_while(|r| !matches!(r.pkt, Ok(Pkt::ConfDisconnect { .. }))).map(|r| r.frame_len).sum();
            if probe.client.first("ConfDisconnect").is_some() {
                for k in [1usize, 4, 9, 20] {
                    let (mut sc, status_expected, ping) = build(&mut rng.clone());
                    sc.write_plan = vp_sim::simnet::WritePlan { steps: vec![], stalls: vec![(off + k, Duration::from_secs(2))] };
                    out.push(Case { sc, class: format!("{bname}/timeout-disconnect-half-written@{k}/routing-ends-without-target"), kind: Kind::ConfigWord, intent: Some(b.intent), status_expected, ping, honest_enc_response: true });
                }
            }
        }
        // complete single-deviation enumeration: position × deviant id × {replace, insert before}
        let positions: Vec<(&str, i32)> = match b.intent {
            Intent::Status => vec![("Handshake", 0), ("StatusRequest", 0), ("StatusPing", 1)],
            _ => {
                let mut v = vec![("Handshake", 0), ("LoginStart", 0), ("CookieResponse#0", 4)];
                if b.intent == Intent::Transfer && b.with_secret {
                    v.push(("CookieResponse#1", 4));
                }
                v.push(("EncryptionResponse", 1));
                v.push(("LoginAcknowledged", 3));
                v
            }
        };
        for (pos, expected_id) in &positions {
            for (dname, dev) in deviants(&mut rng) {
                if dev.id() == *expected_id {
                    continue;
                }
                for before in [false, true] {
                    let (mut sc, status_expected, ping) = base_scenario(&mut rng, b);
                    let label = format!("deviant:{dname}");
                    let dev_act = Act::Send { label: label.clone(), out: Out::Pkt(dev.clone()) };
                    let mut honest = b.intent != Intent::Status;
                    if let Some(n) = pos.strip_prefix("CookieResponse#") {
                        let n: usize = n.parse().unwrap_or(0);
                        let key = if n == 0 { "passage:session" } else { AUTH_KEY };
                        let mut outs = vec![Out::Pkt(dev.clone())];
                        if before {
                            outs.push(Out::Pkt(Pkt::LoginCookieResponse { key: key.into(), payload: None }));
                        }
                        let mut answers = vec![CookieAnswer::Normal; n];
                        answers.push(CookieAnswer::Outs(outs));
                        sc.client.cookie_answers = answers;
                    } else {
                        let original = sc.client.script.iter().find(|a| match a {
                            Act::Send { label: l, .. } => l == pos,
                            Act::EncryptionResponse => *pos == "EncryptionResponse",
                            _ => false,
                        }).cloned();
                        let mut with = vec![dev_act];
                        if before {
                            with.extend(original);
                        } else if *pos == "EncryptionResponse" {
                            honest = false;
                        }
                        replace_send(&mut sc.client.script, pos, with);
                    }
                    out.push(Case {
                        sc,
                        class: format!("{bname}/at-{pos}/{dname}/{}", if before { "then-expected" } else { "instead" }),
                        kind: Kind::Deviation { position: pos.to_string(), before },
                        intent: Some(b.intent),
                        status_expected,
                        ping,
                        honest_enc_response: honest,
                    });
                }
            }
        }
        // unknown next-state ordinals
        for ns in [0, 4, -1, 255, i32::MAX] {
            let (mut sc, status_expected, ping) = base_scenario(&mut rng, b);
            if let Some(Act::Send { out: Out::Pkt(Pkt::Handshake { next_state, .. }), .. }) = sc.client.script.first_mut() {
                *next_state = ns;
            }
            out.push(Case { sc, class: format!("{bname}/next-state-{ns}"), kind: Kind::BadNextState(ns), intent: None, status_expected, ping, honest_enc_response: false });
        }
        // configuration phase: words over all configuration ids, before and after Client Information
        if b.intent != Intent::Status {
            for _ in 0..cli.scaled(cli.tier.pick(40, 2000)) {
                let (mut sc, status_expected, ping) = base_scenario(&mut rng, b);
                let pool = deviants(&mut rng);
                let conf: Vec<&(String, Pkt)> = pool.iter().filter(|(n, _)| n.starts_with("Conf") || n.starts_with("Ack") || n.starts_with("Resource") || n.starts_with("Known") || n.starts_with("Unknown") || n == "ClientInformation").collect();
                let len = rng.range(1, 6) as usize;
                let word: Vec<Act> = (0..len).map(|_| { let (n, p) = *rng.pick(&conf); Act::Send { label: format!("word:{n}"), out: Out::Pkt(p.clone()) } }).collect();
                let names: Vec<String> = word.iter().map(|a| if let Act::Send { label, .. } = a { label[5..].to_string() } else { String::new() }).collect();
                let after_ci = rng.bool();
                let anchor = if after_ci { "ClientInformation" } else { "LoginAcknowledged" };
                if let Some(pos) = sc.client.script.iter().position(|a| matches!(a, Act::Send { label, .. } if label == anchor)) {
                    let mut ins = vec![Act::Sleep(Duration::from_secs(1))];
                    ins.extend(word);
                    sc.client.script.splice(pos + 1..pos + 1, ins);
                }
                out.push(Case { sc, class: format!("{bname}/config-word-{}/{}", if after_ci { "during-routing" } else { "before-client-information" }, names.join("+")), kind: Kind::ConfigWord, intent: Some(b.intent), status_expected, ping, honest_enc_response: true });
            }
        }
    }
    // blind multi-deviation words: frames pipelined without waiting for anything
    let blind = cli.scaled(cli.tier.pick(300, 50_000));
    for i in 0..blind {
        let mut rng = Rng::stream(cli.seed, 61_000 + i);
        let b = &bases[rng.usize_below(bases.len())];
        let (mut sc, status_expected, ping) = base_scenario(&mut rng, b);
        let pool = deviants(&mut rng);
        let len = rng.range(1, 7) as usize;
        let mut script = vec![sc.client.script[0].clone()];
        let mut names = vec![];
        for _ in 0..len {
            let (n, p) = rng.pick(&pool).clone();
            names.push(n.clone());
            script.push(Act::Send { label: format!("blind:{n}"), out: Out::Pkt(p) });
        }
        script.push(Act::AwaitClose);
        sc.client.script = script;
        sc.client.deadline = Duration::from_secs(120);
        out.push(Case { sc, class: format!("blind/{}/{}", b.intent.name(), names.join("+")), kind: Kind::Blind, intent: Some(b.intent), status_expected, ping, honest_enc_response: false });
    }
    // the status words every tier sees: requests and pings repeated within one burst (a client that
    // pings more than once, asks twice, or pings first gets what the grammar allows and no more)
    for (i, word) in [
        vec!["StatusRequest", "StatusPing", "StatusPing"],
        vec!["StatusRequest", "StatusPing", "StatusPing", "StatusPing", "StatusPing"],
        vec!["StatusRequest", "StatusRequest", "StatusPing"],
        vec!["StatusRequest", "StatusPing", "StatusRequest", "StatusPing"],
        vec!["StatusPing", "StatusRequest"],
        vec!["StatusPing", "StatusPing"],
        vec!["StatusRequest", "StatusPing", "Handshake"],
    ]
    .into_iter()
    .enumerate()
    {
        let mut rng = Rng::stream(cli.seed, 62_000 + i as u64);
        let b = &bases[0];
        let (mut sc, status_expected, ping) = base_scenario(&mut rng, b);
        let pool = deviants(&mut rng);
        let mut script = vec![sc.client.script[0].clone()];
        for n in &word {
            if let Some((_, p)) = pool.iter().find(|(name, _)| name == n) {
                script.push(Act::Send { label: format!("blind:{n}"), out: Out::Pkt(p.clone()) });
            }
        }
        script.push(Act::AwaitClose);
        sc.client.script = script;
        sc.client.deadline = Duration::from_secs(120);
        // once with a status service that answers at once, once with one that takes two seconds (the
        // rest of the burst is there long before the answer)
        let mut slow = sc.clone();
        slow.adapters.status_latency = Duration::from_secs(2);
        out.push(Case { sc, class: format!("blind/{}/{}", b.intent.name(), word.join("+")), kind: Kind::Blind, intent: Some(b.intent), status_expected: status_expected.clone(), ping, honest_enc_response: false });
        out.push(Case { sc: slow, class: format!("blind/{}/{}/status-service-2s", b.intent.name(), word.join("+")), kind: Kind::Blind, intent: Some(b.intent), status_expected, ping, honest_enc_response: false });
    }
    // the honest status exchange of a client that does not wait for the Status Response before it
    // pings, against a status service that takes its time: one Status Response, one Pong
    for (i, gap_ms) in [0u64, 300, 1_500].into_iter().enumerate() {
        let mut rng = Rng::stream(cli.seed, 62_500 + i as u64);
        let b = &bases[0];
        let (mut sc, status_expected, ping) = base_scenario(&mut rng, b);
        sc.adapters.status_latency = Duration::from_secs(2);
        let mut script = vec![];
        for a in &sc.client.script {
            match a {
                Act::AwaitPkt { name, .. } if *name == "StatusResponse" => script.push(Act::Sleep(Duration::from_millis(gap_ms))),
                other => script.push(other.clone()),
            }
        }
        sc.client.script = script;
        out.push(Case { sc, class: format!("status/baseline/ping-{gap_ms}ms-behind-the-request/status-service-2s"), kind: Kind::Baseline, intent: Some(b.intent), status_expected, ping, honest_enc_response: false });
    }
    out
}

struct Finding {
    signature: String,
    what: String,
    detail: Value,
}

fn check(case: &Case, run: &Run) -> Vec<Finding> {
    let f = facts(run);
    let names = run.client.names();
    let mut out = vec![];
    let mut bad = |sig: String, what: String, detail: Value| out.push(Finding { signature: sig, what, detail });
    let kind = match &case.kind {
        Kind::Baseline => "baseline".to_string(),
        Kind::Deviation { position, .. } => format!("deviation-at-{}", position.split('#').next().unwrap_or(position)),
        Kind::BadNextState(_) => "bad-next-state".into(),
        Kind::ConfigWord => "config-word".into(),
        Kind::Blind => "blind-word".into(),
        Kind::AuthFails => "authentication-service-fails".into(),
        Kind::InvalidResponse => "invalid-encryption-response".into(),
        Kind::StatusFails => "status-service-fails".into(),
    };
    // G1: the word is in the grammar
    if let Err((i, why)) = accept_word(case.intent, &names) {
        bad(format!("order/{kind}/{}", names[i]), why, json!({"clientbound": names}));
    }
    if run.client.garbage.is_some() || f.undecodable > 0 {
        bad(format!("undecodable-clientbound/{kind}"), "clientbound bytes that are not a well-formed packet of the current phase".into(), json!({}));
    }
    // G2: Login Success only after a valid Encryption Response
    if f.login_success.is_some() {
        let honest_sent = case.honest_enc_response
            && case.sc.client.enc == EncVariant::Honest
            && run.client.sent.iter().any(|s| s.label == "EncryptionResponse" && s.seq < run.client.first("LoginSuccess").map(|r| r.seq).unwrap_or(0));
        if !honest_sent {
            bad(format!("login-success-without-encryption-response/{kind}"), "Login Success although the client never sent a valid Encryption Response before it".into(), json!({}));
        }
    }
    // G3: nothing routing-related before Login Acknowledged and Client Information
    let sent_at = |label: &str| run.client.sent.iter().find(|s| s.label == label || s.label == format!("word:{label}")).map(|s| s.t_ns);
    for c in run.calls.iter().filter(|c| matches!(c.call, Call::Discover | Call::Filter { .. } | Call::Select { .. })) {
        for need in ["LoginAcknowledged", "ClientInformation"] {
            match sent_at(need) {
                Some(t) if t <= c.t_ns => {}
                _ => bad(format!("routing-before-{need}/{kind}"), format!("{} consulted before the client sent {need}", c.call.name()), json!({"call_t_s": c.t_ns as f64 / 1e9})),
            }
        }
    }
    // G4: single deviation in handshake/status/login ends the connection without a reply
    if let Kind::Deviation { .. } | Kind::BadNextState(_) = &case.kind {
        let dev_seq = match &case.kind {
            Kind::Deviation { .. } => run.client.sent.iter().find(|s| s.label.starts_with("deviant:") || s.label.ends_with(".0")).map(|s| s.seq),
            _ => run.client.sent.first().map(|s| s.seq),
        };
        match dev_seq {
            None => {
                // the deviant was never sent (the connection ended earlier): nothing to judge
            }
            Some(seq) => {
                let replies: Vec<&str> = run.client.received.iter().filter(|r| r.seq > seq).map(|r| r.pkt.as_ref().map(|p| p.name()).unwrap_or("Undecodable")).collect();
                if !replies.is_empty() {
                    bad(format!("reply-after-unexpected-packet/{kind}"), format!("{replies:?} sent after a packet other than the expected one"), json!({"replies": replies}));
                }
                // services that may have been consulted before the deviant was read
                let allowed: &[&str] = match &case.kind {
                    Kind::Deviation { position, .. } if position == "StatusPing" => &["status"],
                    Kind::Deviation { position, .. } if position == "LoginAcknowledged" => &["authenticate"],
                    _ => &[],
                };
                let later_calls: Vec<&str> = run.calls.iter().map(|c| c.call.name()).filter(|n| !allowed.contains(n) && *n != "localize").collect();
                if !later_calls.is_empty() {
                    bad(format!("service-consulted-after-unexpected-packet/{kind}"), format!("{later_calls:?} consulted although the connection had to end at the unexpected packet"), json!({}));
                }
                if !run.result.is_err() {
                    bad(format!("connection-not-ended-after-unexpected-packet/{kind}/{}", run.result.kind()), format!("listen() returned {} after a packet other than the expected one", run.result.kind()), json!({}));
                }
            }
        }
    }
    // G5: status content
    if case.kind == Kind::StatusFails {
        // "the status service's answer as JSON": a failed call has no answer, so whatever is sent as
        // a Status Response is not the service's
        if let Some(r) = run.client.first("StatusResponse") {
            bad(format!("status-response-without-service-answer/{kind}"), "a Status Response was sent although the status service failed".into(), json!({"body": format!("{:?}", r.pkt)}));
        }
        if f.status_calls.is_empty() {
            bad(format!("status-service-not-consulted/{kind}"), "harness: the failing status service was never consulted".into(), json!({}));
        }
    } else if case.intent == Some(Intent::Status) {
        if let Some(r) = run.client.first("StatusResponse")
            && let Ok(Pkt::StatusResponse { body }) = &r.pkt
        {
            match serde_json::from_str::<Value>(body) {
                Ok(v) if v == case.status_expected => {}
                other => bad(format!("status-body/{kind}"), "Status Response body is not the status service's answer as JSON".into(), json!({"expected": case.status_expected, "got": format!("{other:?}")})),
            }
            if f.status_calls.len() != 1 {
                bad(format!("status-service-calls/{kind}"), format!("status service consulted {} times for one Status Response", f.status_calls.len()), json!({}));
            }
        }
        if let Some(r) = run.client.first("StatusPong")
            && let Ok(Pkt::StatusPong { payload }) = &r.pkt
        {
            // whatever it was labelled: a frame with packet id 1 in the status phase IS a ping
            let sent_ping = run.client.sent.iter().skip(1).any(|s| matches!(vp_common::refcodec::split_frame(&s.plain, 1 << 22), Ok(Some((0x01, _, _)))));
            if !sent_ping {
                bad(format!("pong-without-ping/{kind}"), "Pong although no Ping was sent".into(), json!({}));
            } else if case.kind == Kind::Baseline && *payload != case.ping {
                bad(format!("pong-payload/{kind}"), "Pong does not echo the Ping payload".into(), json!({"ping": case.ping, "pong": payload}));
            }
        }
        if !f.auth_calls.is_empty() || !f.discover_calls.is_empty() {
            bad(format!("status-mixed-with-login/{kind}"), "login services consulted on a status connection".into(), json!({}));
        }
    } else if !f.status_calls.is_empty() {
        bad(format!("login-mixed-with-status/{kind}"), "status service consulted on a login connection".into(), json!({}));
    }
    // baselines must complete: otherwise the run exercised nothing
    if case.kind == Kind::Baseline {
        let done = match case.intent {
            Some(Intent::Status) => names == ["StatusResponse", "StatusPong"] && run.result == ServerResult::Ok,
            _ => names.last() == Some(&"Transfer") && run.result == ServerResult::Ok,
        };
        if !done {
            bad(format!("baseline-incomplete/{}", case.intent.map(|i| i.name()).unwrap_or("?")), format!("the undeviated exchange did not complete: {names:?} {}", run.result.kind()), json!({}));
        }
    }
    out
}

pub fn run_prop(cli: &Cli) -> i32 {
    let mut report = Report::new(
        cli,
        "exploration",
        "per intent{status, login, login+secret, transfer, transfer+secret}: baselines; the COMPLETE single-deviation space position{Handshake, StatusRequest, Ping, LoginStart, CookieResponse#0/#1, EncryptionResponse, LoginAcknowledged} × 21 deviant packets (every serverbound packet of every phase with its natural body, unknown ids 0x08/0x10/0x7f, 5-byte VarInt ids) × {instead of, followed by} the expected packet; unknown next-state ordinals; configuration-phase words (len ≤ 6) before Client Information and during routing; blind pipelined words; judged by a grammar acceptor over the decoded clientbound sequence joined with the adapter log; distinct = distinct script",
    );
    let cases = generate(cli);
    let n_dev = cases.iter().filter(|c| matches!(c.kind, Kind::Deviation { .. })).count();
    let results = par_map(cases, cli.threads(), |_, case| {
        let run = run(&case.sc);
        let findings: Vec<(Finding, Value)> = check(case, &run).into_iter().map(|fi| { let w = witness(&case.sc, &run, fi.detail.clone()); (fi, w) }).collect();
        let sample = json!({"case": case.class, "sent": run.client.sent.iter().map(|s| s.label.clone()).collect::<Vec<_>>(), "clientbound": run.client.names(), "adapter_calls": run.calls.iter().map(|c| c.call.name()).collect::<Vec<_>>(), "result": run.result.kind()});
        (case.class.clone(), case.kind.clone(), sample, findings, run.client.received.len())
    });
    for (i, (class, kind, sample, findings, received)) in results.into_iter().enumerate() {
        report.eval(Some(&class));
        if i % 173 == 0 || (kind == Kind::ConfigWord && i % 41 == 0) {
            report.sample(sample);
        }
        report.count("clientbound packets decoded and run through the acceptor", received as u64);
        match kind {
            Kind::Baseline => report.count("baseline exchanges", 1),
            Kind::Deviation { .. } => report.count("single-deviation scripts", 1),
            Kind::BadNextState(_) => report.count("unknown next-state scripts", 1),
            Kind::ConfigWord => report.count("configuration-phase words", 1),
            Kind::Blind => report.count("blind pipelined words", 1),
            Kind::AuthFails | Kind::InvalidResponse => report.count("failed-authentication scripts", 1),
            Kind::StatusFails => report.count("status exchanges with a failing status service", 1),
        }
        for (fi, w) in findings {
            report.violation(&fi.signature, &fi.what, w);
        }
    }
    report.set("single_deviation_space_enumerated_completely", json!(true));
    report.set("single_deviation_scripts", json!(n_dev));
    if cli.tier == Tier::Quick {
        report.assume("multi-deviation words are sampled, not enumerated");
    }
    report.finish()
}
