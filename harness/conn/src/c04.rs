//! C04 — no client input can crash the handler or make it allocate unboundedly.
//! Structure-aware mutation of well-formed transcripts: one frame mutated at each position of each
//! protocol state, before and after encryption starts (post-encryption mutants are encrypted by the
//! client, so the server sees the mutated plaintext).

use crate::mk::{self, AUTH_KEY, SESSION_KEY};
use crate::scenario::*;
use serde_json::{Value, json};
use std::collections::BTreeMap;
use std::time::Duration;
use vp_common::refcodec::{Pkt, W};
use vp_common::report::par_map;
use vp_common::{Cli, Report, Rng};
use vp_sim::client::{Act, CookieAnswer, EncVariant, Out};
use vp_sim::recadapters::{LocalizeScript, Outcome};

#[derive(Clone, Debug)]
struct Case {
    sc: Scenario,
    state: String,
    class: &'static str,
    detail: String,
    /// the input is malformed beyond doubt: the connection must end with an error
    must_err: bool,
    /// offset in the serverbound byte stream after which the server must not keep consuming
    /// (end of a refused outer length prefix), if this case has one
    refuse_after: Option<usize>,
    max_frame: i32,
}

fn varint_bytes(v: i32) -> Vec<u8> {
    let mut w = W::new();
    w.varint(v);
    w.0
}

/// Splits a frame into (outer prefix bytes, inner bytes).
fn split_outer(frame: &[u8]) -> (Vec<u8>, Vec<u8>) {
    let mut i = 0;
    while i < frame.len() && i < 5 && frame[i] & 0x80 != 0 {
        i += 1;
    }
    (frame[..=i.min(frame.len() - 1)].to_vec(), frame[(i + 1).min(frame.len())..].to_vec())
}

fn reframe(inner: &[u8]) -> Vec<u8> {
    let mut out = varint_bytes(inner.len() as i32);
    out.extend_from_slice(inner);
    out
}

#[derive(Clone)]
struct Position {
    /// label of the Act::Send to replace, or a reactive slot
    slot: Slot,
    state: &'static str,
    frame: Vec<u8>,
    /// offsets (in the body, after the packet id byte) of declared inner lengths
    inner_len_at: Vec<usize>,
    /// offsets of enum ordinals / booleans worth attacking explicitly
    enum_at: Vec<usize>,
}

#[derive(Clone, PartialEq)]
enum Slot {
    Script(&'static str),
    Cookie(usize),
    EncryptionResponse,
    /// an additional configuration-phase frame sent 1 s after Client Information
    ConfigExtra,
}

struct Shape {
    name: &'static str,
    intent: Intent,
    secret: bool,
}

const SHAPES: &[Shape] = &[
    Shape { name: "status", intent: Intent::Status, secret: false },
    Shape { name: "login", intent: Intent::Login, secret: false },
    Shape { name: "transfer", intent: Intent::Transfer, secret: true },
];

fn base(shape: &Shape, rng: &mut Rng, max_frame: i32) -> (Scenario, Vec<Position>) {
    let claimed = mk::ident(rng, "claimed");
    let authed = mk::ident(rng, "vouched");
    let p = ScriptParams { intent: shape.intent, address: "fuzz.example.org", port: 25565, protocol: 770, claimed: &claimed, locale: "en_us", ping_payload: rng.u64(), client_info_delay: Duration::ZERO };
    let mut plan = default_plan(&p, mk::secret16(rng));
    plan.deadline = Duration::from_secs(60);
    let session = serde_json::to_vec(&json!({"id": uuid_string(rng.u64() as u128), "server_address": "a.example", "server_port": 25565})).expect("json");
    let server_secret = b"fuzz-secret".to_vec();
    let ck = crate::cookie::build(rng, crate::cookie::Class::Valid, &server_secret, &ServerCfg::default().client_addr, 6 * 3600, &authed, &[]);
    plan.cookies = vec![(SESSION_KEY.to_string(), Some(session.clone())), (AUTH_KEY.to_string(), ck.payload.clone())];
    let mut adapters = mk::routing_adapters(Some((&authed, &[])), mk::targets(rng, 2));
    adapters.discovery_latency = Duration::from_secs(5);
    let cfg = ServerCfg { secret: if shape.secret { Some(server_secret) } else { None }, max_frame: Some(max_frame), ..Default::default() };
    let sc = default_scenario(shape.name, plan, adapters, cfg);

    let hs = handshake(shape.intent, "fuzz.example.org", 25565, 770).frame();
    let mut positions = vec![Position { slot: Slot::Script("Handshake"), state: "handshake", frame: hs, inner_len_at: vec![2], enum_at: vec![21] }];
    match shape.intent {
        Intent::Status => {
            positions.push(Position { slot: Slot::Script("StatusRequest"), state: "status-request", frame: Pkt::StatusRequest.frame(), inner_len_at: vec![], enum_at: vec![] });
            positions.push(Position { slot: Slot::Script("StatusPing"), state: "status-ping", frame: Pkt::StatusPing { payload: 1 }.frame(), inner_len_at: vec![], enum_at: vec![] });
        }
        _ => {
            positions.push(Position { slot: Slot::Script("LoginStart"), state: "login-start", frame: Pkt::LoginStart { name: claimed.name.clone(), uuid: claimed.uuid }.frame(), inner_len_at: vec![0], enum_at: vec![] });
            let key_len = SESSION_KEY.len();
            positions.push(Position {
                slot: Slot::Cookie(0),
                state: "login-session-cookie",
                frame: Pkt::LoginCookieResponse { key: SESSION_KEY.into(), payload: Some(session.clone()) }.frame(),
                inner_len_at: vec![0, 1 + key_len + 1],
                enum_at: vec![1 + key_len],
            });
            if shape.secret {
                let key_len = AUTH_KEY.len();
                positions.push(Position {
                    slot: Slot::Cookie(1),
                    state: "login-auth-cookie",
                    frame: Pkt::LoginCookieResponse { key: AUTH_KEY.into(), payload: ck.payload.clone() }.frame(),
                    inner_len_at: vec![0, 1 + key_len + 1],
                    enum_at: vec![1 + key_len],
                });
            }
            positions.push(Position {
                slot: Slot::EncryptionResponse,
                state: "login-encryption-response",
                frame: Pkt::EncryptionResponse { shared_secret: rng.bytes(128), verify_token: rng.bytes(128) }.frame(),
                inner_len_at: vec![0, 130],
                enum_at: vec![],
            });
            positions.push(Position { slot: Slot::Script("LoginAcknowledged"), state: "encrypted-login-acknowledged", frame: Pkt::LoginAcknowledged.frame(), inner_len_at: vec![], enum_at: vec![] });
            positions.push(Position { slot: Slot::Script("ClientInformation"), state: "encrypted-client-information", frame: client_information("en_us").frame(), inner_len_at: vec![0], enum_at: vec![7, 8, 10, 11, 12, 13] });
            for (state, pkt, lens) in [
                ("encrypted-config-keep-alive", Pkt::ConfKeepAliveIn { id: 5 }, vec![]),
                ("encrypted-config-plugin-message", Pkt::ConfPluginMessageIn { raw: b"\x0fminecraft:brandvanilla".to_vec() }, vec![0]),
                ("encrypted-config-resource-pack", Pkt::ResourcePackResponse { uuid: 3, result: 1 }, vec![]),
                ("encrypted-config-cookie-response", Pkt::ConfCookieResponse { raw: vec![3, b'a', b':', b'b', 1, 2, 9, 9] }, vec![0, 5]),
            ] {
                positions.push(Position { slot: Slot::ConfigExtra, state, frame: pkt.frame(), inner_len_at: lens, enum_at: if state.ends_with("resource-pack") { vec![16] } else { vec![] } });
            }
        }
    }
    (sc, positions)
}

/// Replaces the frame at `pos` by `outs` (then optionally EOF).
fn apply(sc: &Scenario, pos: &Position, outs: Vec<Out>, then_close: bool) -> Scenario {
    let mut v = sc.clone();
    let mk_acts = |outs: Vec<Out>| -> Vec<Act> {
        let mut a: Vec<Act> = outs.into_iter().enumerate().map(|(i, o)| Act::Send { label: format!("mutant.{i}"), out: o }).collect();
        if then_close {
            a.push(Act::Close);
            a.push(Act::AwaitClose);
        }
        a
    };
    match &pos.slot {
        Slot::Script(label) => {
            if let Some(i) = v.client.script.iter().position(|a| matches!(a, Act::Send { label: l, .. } if l == label)) {
                let acts = mk_acts(outs);
                if then_close {
                    v.client.script.truncate(i);
                    v.client.script.extend(acts);
                } else {
                    v.client.script.splice(i..=i, acts);
                }
            }
        }
        Slot::Cookie(n) => {
            let mut answers = vec![CookieAnswer::Normal; *n];
            answers.push(CookieAnswer::Outs(outs));
            v.client.cookie_answers = answers;
            if then_close {
                // the script waits for the Encryption Request, which will not come; close after a moment
                if let Some(i) = v.client.script.iter().position(|a| matches!(a, Act::AwaitPkt { name: "EncryptionRequest", .. })) {
                    v.client.script.truncate(i);
                    v.client.script.extend([Act::Sleep(Duration::from_secs(1)), Act::Close, Act::AwaitClose]);
                }
            }
        }
        Slot::EncryptionResponse => {
            if let Some(i) = v.client.script.iter().position(|a| matches!(a, Act::EncryptionResponse)) {
                let mut acts: Vec<Act> = vec![];
                let mut outs = outs;
                if !outs.is_empty() {
                    let first = outs.remove(0);
                    acts.push(Act::EncryptionResponseOverride(first));
                }
                acts.extend(outs.into_iter().enumerate().map(|(k, o)| Act::Send { label: format!("mutant.{}", k + 1), out: o }));
                if then_close {
                    v.client.script.truncate(i);
                    acts.push(Act::Close);
                    acts.push(Act::AwaitClose);
                    v.client.script.extend(acts);
                } else {
                    v.client.script.splice(i..=i, acts);
                }
            }
        }
        Slot::ConfigExtra => {
            if let Some(i) = v.client.script.iter().position(|a| matches!(a, Act::Send { label, .. } if label == "ClientInformation")) {
                let mut acts = vec![Act::Sleep(Duration::from_secs(1))];
                acts.extend(mk_acts(outs));
                if then_close {
                    v.client.script.truncate(i + 1);
                    v.client.script.extend(acts);
                } else {
                    v.client.script.splice(i + 1..i + 1, acts);
                }
            }
        }
    }
    v
}

fn generate(cli: &Cli) -> Vec<Case> {
    let mut out = vec![];
    let frames_cfg: &[i32] = &[64, 300, 10_000, 1 << 21];
    let rounds = cli.scaled(cli.tier.pick(1, 12));
    for round in 0..rounds {
        for (si, shape) in SHAPES.iter().enumerate() {
            for &max_frame in frames_cfg {
                let mut rng = Rng::stream(cli.seed, 40_000 + round * 100 + si as u64 * 10 + (max_frame as u64 % 7));
                let (sc, positions) = base(shape, &mut rng, max_frame);
                // unmutated control
                out.push(Case { sc: sc.clone(), state: format!("{}/control", shape.name), class: "control", detail: String::new(), must_err: false, refuse_after: None, max_frame });
                for pos in &positions {
                    let state = format!("{}/{}", shape.name, pos.state);
                    let (_, inner) = split_outer(&pos.frame);
                    let n = inner.len() as i32;
                    // 1. outer length prefix
                    let mut outer_values: Vec<(String, Vec<u8>)> = vec![];
                    for v in [-1, i32::MIN, 0, 1, n - 1, n + 1, max_frame, max_frame + 1, i32::MAX] {
                        outer_values.push((v.to_string(), varint_bytes(v)));
                    }
                    outer_values.push(("overlong-zero".into(), vec![0x80, 0x80, 0x80, 0x80, 0x00]));
                    outer_values.push(("six-ff".into(), vec![0xff; 6]));
                    // five bytes whose last one still announces a sixth: not a VarInt at all
                    outer_values.push(("fifth-byte-continues/1".into(), vec![0x81, 0x80, 0x80, 0x80, 0x80]));
                    outer_values.push((format!("fifth-byte-continues/{n}"), {
                        let mut v = varint_bytes(n);
                        while v.len() < 5 {
                            let last = v.len() - 1;
                            v[last] |= 0x80;
                            v.push(0x00);
                        }
                        v[4] |= 0x80;
                        v
                    }));
                    for (name, prefix) in outer_values {
                        let declared: Option<i64> = name.parse::<i64>().ok();
                        let bad = match declared {
                            Some(v) => v <= 0 || v > max_frame as i64,
                            None => true,
                        };
                        let mut bytes = prefix.clone();
                        bytes.extend_from_slice(&inner);
                        let v = apply(&sc, pos, vec![Out::Frame(bytes)], true);
                        out.push(Case { sc: v, state: state.clone(), class: "outer-length", detail: name.clone(), must_err: bad, refuse_after: None, max_frame });
                        if bad {
                            // a refused prefix followed by a large body: the body must not be consumed
                            let mut bytes = prefix.clone();
                            bytes.extend(std::iter::repeat_n(0x41u8, 200 * 1024));
                            let v = apply(&sc, pos, vec![Out::Frame(bytes)], true);
                            out.push(Case { sc: v, state: state.clone(), class: "refused-length-huge-body", detail: name, must_err: true, refuse_after: Some(prefix.len().min(5)), max_frame });
                        }
                    }
                    // 2. declared inner lengths (strings, byte arrays)
                    for &at in &pos.inner_len_at {
                        if 1 + at >= inner.len() {
                            continue;
                        }
                        for v in [-1, i32::MIN, i32::MAX, n + 1000, max_frame + 1] {
                            let mut m = inner.clone();
                            // the original prefix may be 1 or 2 bytes long
                            let old_len = if m[1 + at] & 0x80 != 0 { 2 } else { 1 };
                            m.splice(1 + at..1 + at + old_len, varint_bytes(v));
                            let sc_v = apply(&sc, pos, vec![Out::Frame(reframe(&m))], true);
                            out.push(Case { sc: sc_v, state: state.clone(), class: "inner-length", detail: format!("{v}@{at}"), must_err: true, refuse_after: None, max_frame });
                        }
                    }
                    // 3. a VarInt inserted at every body position (shifts and corrupts what follows)
                    let stride = if inner.len() > 48 { 17 } else { 1 };
                    for at in (1..inner.len()).step_by(stride) {
                        for v in [-1, i32::MAX, 300, 0] {
                            let mut m = inner.clone();
                            m.splice(at..at, varint_bytes(v));
                            for fix_outer in [true, false] {
                                let bytes = if fix_outer { reframe(&m) } else { let mut b = split_outer(&pos.frame).0; b.extend_from_slice(&m); b };
                                let sc_v = apply(&sc, pos, vec![Out::Frame(bytes)], false);
                                out.push(Case { sc: sc_v, state: state.clone(), class: "inserted-varint", detail: format!("{v}@{at}{}", if fix_outer { "" } else { "/stale-outer" }), must_err: false, refuse_after: None, max_frame });
                            }
                        }
                    }
                    // 3d. an authentication cookie of every length around the tag's: shorter than a tag is
                    // not a cookie, and nothing to index into
                    if pos.state == "login-auth-cookie" {
                        for n in [0usize, 1, 8, 15, 16, 17, 24, 31, 32, 33, 40] {
                            let sc_v = apply(&sc, pos, vec![Out::Pkt(Pkt::LoginCookieResponse { key: crate::mk::AUTH_KEY.into(), payload: Some(vec![0x5a; n]) })], false);
                            out.push(Case { sc: sc_v, state: state.clone(), class: "auth-cookie-around-the-length-of-a-tag", detail: n.to_string(), must_err: false, refuse_after: None, max_frame });
                        }
                    }
                    // 3c. an empty frame (declared length 0, also in its two-byte spelling) in front of the
                    // expected frame: a length that is not positive is refused, whatever follows
                    for (zname, zero) in [("00", vec![0x00u8]), ("80-00", vec![0x80, 0x00]), ("00-00-00", vec![0, 0, 0])] {
                        let mut bytes = zero.clone();
                        bytes.extend_from_slice(&pos.frame);
                        let sc_v = apply(&sc, pos, vec![Out::Frame(bytes)], false);
                        out.push(Case { sc: sc_v, state: state.clone(), class: "empty-frame-in-front", detail: zname.into(), must_err: true, refuse_after: None, max_frame });
                    }
                    // 3b. the body ends one byte early (outer length adjusted): the last field is missing or
                    // incomplete. Every packet but the plugin message (whose tail is free-form data) is
                    // malformed then; Client Information also with its last field (a VarInt enum) over-long
                    // (and the configuration-phase Cookie Response, which the router skips without looking inside)
                    if inner.len() > 1 && !pos.state.contains("plugin-message") && !pos.state.contains("config-cookie-response") {
                        let m = inner[..inner.len() - 1].to_vec();
                        let sc_v = apply(&sc, pos, vec![Out::Frame(reframe(&m))], false);
                        out.push(Case { sc: sc_v, state: state.clone(), class: "body-one-byte-short", detail: "last-field".into(), must_err: true, refuse_after: None, max_frame });
                    }
                    if pos.state.contains("client-information") && inner.len() > 2 {
                        let mut m = inner[..inner.len() - 1].to_vec();
                        m.extend_from_slice(&[0xff, 0xff, 0xff, 0xff, 0xff]);
                        let sc_v = apply(&sc, pos, vec![Out::Frame(reframe(&m))], false);
                        out.push(Case { sc: sc_v, state: state.clone(), class: "varint-field-fifth-byte-continues", detail: "particle-status".into(), must_err: true, refuse_after: None, max_frame });
                    }
                    // 3a. a VarInt field of five bytes whose last byte still has the continuation bit
                    if pos.state == "handshake" && inner.len() > 3 {
                        // inner = id, protocol version (770 = 82 06), address, port, next state
                        let mut m = vec![inner[0], 0xff, 0xff, 0xff, 0xff, 0xff];
                        m.extend_from_slice(&inner[3..]);
                        let sc_v = apply(&sc, pos, vec![Out::Frame(reframe(&m))], false);
                        out.push(Case { sc: sc_v, state: state.clone(), class: "varint-field-fifth-byte-continues", detail: "protocol-version".into(), must_err: true, refuse_after: None, max_frame });
                    }
                    // 3b. a string field whose bytes are not UTF-8: malformed beyond doubt
                    if matches!(pos.state, "handshake" | "login-start" | "login-session-cookie" | "login-auth-cookie" | "encrypted-client-information") {
                        if let Some(&at) = pos.inner_len_at.first() {
                            let len = inner.get(1 + at).copied().unwrap_or(0) as usize;
                            if len >= 2 && len < 128 && 1 + at + 1 + len <= inner.len() {
                                let first = 1 + at + 1;
                                let last = first + len - 1;
                                for (what, edits) in [("ff-first", vec![(first, 0xffu8)]), ("overlong-nul", vec![(first, 0xc0), (first + 1, 0x80)]), ("truncated-sequence-at-the-end", vec![(last, 0xe2)]), ("lone-continuation", vec![(last, 0x80)]), ("surrogate", vec![(first, 0xed), (first + 1, 0xa0)])] {
                                    let mut m = inner.clone();
                                    for (i, b) in edits {
                                        m[i] = b;
                                    }
                                    let sc_v = apply(&sc, pos, vec![Out::Frame(reframe(&m))], false);
                                    out.push(Case { sc: sc_v, state: state.clone(), class: "invalid-utf8-in-string", detail: what.into(), must_err: true, refuse_after: None, max_frame });
                                }
                            }
                        }
                    }
                    // 4. byte substitutions: invalid UTF-8, enum ordinals, flag bytes
                    for at in 1..inner.len().min(40) {
                        for b in [0xffu8, 0xc0, 0x80, 0x7f, 0x02] {
                            let mut m = inner.clone();
                            if m[at] == b {
                                continue;
                            }
                            m[at] = b;
                            let explicit = pos.enum_at.contains(&(at - 1));
                            let sc_v = apply(&sc, pos, vec![Out::Frame(reframe(&m))], false);
                            out.push(Case { sc: sc_v, state: state.clone(), class: if explicit { "enum-or-flag-byte" } else { "byte-substitution" }, detail: format!("{b:#x}@{at}"), must_err: false, refuse_after: None, max_frame });
                        }
                    }
                    // 5. truncation at every byte followed by EOF
                    let stride = if pos.frame.len() > 48 { 13 } else { 1 };
                    for cut in (0..pos.frame.len()).step_by(stride) {
                        let sc_v = apply(&sc, pos, vec![Out::Frame(pos.frame[..cut].to_vec())], true);
                        out.push(Case { sc: sc_v, state: state.clone(), class: "truncated-then-eof", detail: cut.to_string(), must_err: true, refuse_after: None, max_frame });
                    }
                    // 5b. a frame that ends in the middle of its packet-id VarInt, with the next frame
                    // already buffered behind it (one segment)
                    for head in [vec![0x01u8, 0x80], vec![0x01, 0xff], vec![0x02, 0x80, 0x80], vec![0x03, 0xff, 0xff, 0xff], vec![0x04, 0x80, 0x80, 0x80, 0x80]] {
                        let mut bytes = head.clone();
                        bytes.extend_from_slice(&pos.frame);
                        bytes.extend_from_slice(&pos.frame);
                        let sc_v = apply(&sc, pos, vec![Out::Frame(bytes)], true);
                        out.push(Case { sc: sc_v, state: state.clone(), class: "frame-ends-inside-id-varint", detail: head.len().to_string(), must_err: false, refuse_after: None, max_frame });
                    }
                    // 6. random bytes instead of the frame, then EOF
                    for _ in 0..4 {
                        let len = rng.range(1, 300) as usize;
                        let sc_v = apply(&sc, pos, vec![Out::Frame(rng.bytes(len))], true);
                        out.push(Case { sc: sc_v, state: state.clone(), class: "random-bytes", detail: len.to_string(), must_err: false, refuse_after: None, max_frame });
                    }
                }
                // 6b. legitimate load: one frame of (almost) the maximum size, and a flood of small
                // valid frames, both during routing — memory must stay in proportion to max_frame
                if shape.intent != Intent::Status {
                    if let Some(pos) = positions.iter().find(|p| p.state == "encrypted-config-plugin-message") {
                        let big = (max_frame as usize).saturating_sub(16).min(300_000);
                        let mut raw = b"\x0fminecraft:brand".to_vec();
                        raw.resize(big.max(20), b'x');
                        let sc_v = apply(&sc, pos, vec![Out::Pkt(Pkt::ConfPluginMessageIn { raw })], false);
                        out.push(Case { sc: sc_v, state: format!("{}/{}", shape.name, pos.state), class: "maximum-size-frame", detail: big.to_string(), must_err: false, refuse_after: None, max_frame });
                        // a well-formed frame a little above the configured maximum is refused in the
                        // configuration phase like anywhere else (the client goes on as if nothing happened)
                        for over in [1usize, 50] {
                            let body = max_frame as usize + over;
                            if body > 17 && body < 300_000 {
                                let mut raw = b"\x0fminecraft:brand".to_vec();
                                raw.resize(body - 1, b'y');
                                let sc_v = apply(&sc, pos, vec![Out::Pkt(Pkt::ConfPluginMessageIn { raw })], false);
                                out.push(Case { sc: sc_v, state: format!("{}/{}", shape.name, pos.state), class: "frame-just-above-maximum", detail: format!("max+{over}"), must_err: true, refuse_after: None, max_frame });
                            }
                        }
                        let small = Pkt::ConfPluginMessageIn { raw: b"\x0fminecraft:brandvanilla".to_vec() }.frame();
                        let flood: Vec<u8> = small.iter().cycle().take(small.len() * 4000).copied().collect();
                        let sc_v = apply(&sc, pos, vec![Out::Frame(flood)], false);
                        out.push(Case { sc: sc_v, state: format!("{}/{}", shape.name, pos.state), class: "flood-of-small-frames", detail: "4000".into(), must_err: false, refuse_after: None, max_frame });
                    }
                }
                // 7. RSA fields of every length class and secrets of the wrong size
                if shape.intent != Intent::Status {
                    for (a, b) in [(0usize, 0usize), (1, 1), (127, 127), (128, 128), (129, 129), (256, 256), (1000, 128), (128, 1000), (128, 0)] {
                        let mut v = sc.clone();
                        v.client.enc = EncVariant::Raw { secret: rng.bytes(a), token: rng.bytes(b) };
                        out.push(Case { sc: v, state: format!("{}/login-encryption-response", shape.name), class: "rsa-field-length", detail: format!("{a}/{b}"), must_err: true, refuse_after: None, max_frame });
                    }
                    // a field that is numerically ≥ the modulus
                    let mut v = sc.clone();
                    v.client.enc = EncVariant::Raw { secret: vec![0xff; 128], token: vec![0xff; 128] };
                    out.push(Case { sc: v, state: format!("{}/login-encryption-response", shape.name), class: "rsa-field-length", detail: "above-modulus".into(), must_err: true, refuse_after: None, max_frame });
                    for n in [0usize, 1, 15, 17, 24, 32, 100] {
                        let mut v = sc.clone();
                        v.client.enc = EncVariant::SecretLen(n);
                        out.push(Case { sc: v, state: format!("{}/login-encryption-response", shape.name), class: "secret-size", detail: n.to_string(), must_err: true, refuse_after: None, max_frame });
                    }
                    // while the session service is asked (3 s) the client pours 4 MiB after its Encryption
                    // Response: nothing of it is a frame yet, nothing of it needs to be held
                    if let Some(i) = sc.client.script.iter().position(|a| matches!(a, Act::EncryptionResponse)) {
                        let mut v = sc.clone();
                        v.adapters.auth_latency = Duration::from_secs(3);
                        v.client.script.insert(i + 1, Act::Send { label: "flood".into(), out: Out::Frame(vec![0x41u8; (cli.scaled(4 << 20) as usize).clamp(512 << 10, 4 << 20)]) });
                        out.push(Case { sc: v, state: format!("{}/login-encryption-response", shape.name), class: "flood-while-a-backend-is-asked", detail: "megabytes-behind-the-encryption-response".into(), must_err: true, refuse_after: None, max_frame });
                    }
                    // a verify token that decrypts correctly under the server key but has another length
                    for n in [0usize, 1, 16, 31, 33, 64, 117] {
                        let mut v = sc.clone();
                        v.client.enc = EncVariant::WrongToken(rng.bytes(n));
                        out.push(Case { sc: v, state: format!("{}/login-encryption-response", shape.name), class: "decryptable-token-of-other-length", detail: n.to_string(), must_err: true, refuse_after: None, max_frame });
                    }
                    // 8. text that is the client's to choose and that the server interprets: the locale
                    // of Client Information, looked up in the repository's localization tables when a
                    // message has to be rendered (no target to send the player to)
                    if max_frame >= 300 {
                        if let Some(pos) = positions.iter().find(|p| p.state == "encrypted-client-information") {
                            let long = "x".repeat(200);
                            let locales: Vec<&str> = vec![
                                "", "x", "_", "__", "a_", "_b", "en_", "aé", "é", "€", "€_€", "😀", "d😀", "\u{0}", "\u{0}\u{0}_\u{0}", "en_US_POSIX", "zh_hant_tw_x_y", "EN", "eN_uS", " en", "en us", "en-US", "%s", "{}",
                                "{locale}", "../en", &long, "ru_кириллица_длинная", "日本語のロケール名", "aaaaaaaaaaaaaaaé", "aaaaaaaaaaaaaaé", "\u{feff}en", "e\u{301}n_us", "ß_SS", "İ_i",
                            ];
                            // a locale made of separators only, as long as the frame allows: every `_` is a
                            // fall-back step of the lookup; with tables that know neither it nor the default
                            // locale the lookup ends in the application's "cannot find" warning
                            let many = "_".repeat((max_frame as usize).saturating_sub(120).min(12_000));
                            let many_parts = "ab_".repeat((max_frame as usize).saturating_sub(120).min(12_000) / 3);
                            for (loc, only_de) in locales.iter().map(|l| (*l, false)).chain([(many.as_str(), false), (many.as_str(), true), (many_parts.as_str(), true), ("xx_yy", true)]) {
                                let mut v = apply(&sc, pos, vec![Out::Pkt(client_information(loc))], false);
                                v.adapters.discovery = Outcome::Ok(vec![]);
                                v.adapters.discovery_latency = Duration::ZERO;
                                v.adapters.localize = LocalizeScript::Table {
                                    default_locale: "en_US".into(),
                                    messages: vec![
                                        ("en".into(), vec![("disconnect_no_target".into(), "{\"text\":\"no target\"}".into()), ("disconnect_timeout".into(), "{\"text\":\"timeout\"}".into())]),
                                        ("en_US".into(), vec![("disconnect_no_target".into(), "{\"text\":\"no target (US)\"}".into())]),
                                        ("de".into(), vec![("disconnect_no_target".into(), "{\"text\":\"kein Ziel\"}".into())]),
                                    ],
                                };
                                if only_de
                                    && let LocalizeScript::Table { messages, .. } = &mut v.adapters.localize
                                {
                                    messages.retain(|(l, _)| l == "de");
                                }
                                out.push(Case { sc: v, state: format!("{}/encrypted-client-information", shape.name), class: "hostile-locale-rendered", detail: format!("{:?}{}{}", loc.chars().take(12).collect::<String>(), if loc.len() > 12 { format!("…({} bytes)", loc.len()) } else { String::new() }, if only_de { "/no-table-for-the-default-locale" } else { "" }), must_err: false, refuse_after: None, max_frame });
                            }
                        }
                    }
                }
            }
        }
    }
    out
}

pub fn run_prop(cli: &Cli) -> i32 {
    run_filtered(cli, None)
}

/// `only`: keep only violations whose signature starts with one of these prefixes (used by
/// ./check C14 for the clause "frames longer than the configured maximum are refused" in every
/// protocol state, before and after encryption).
pub fn run_filtered(cli: &Cli, only: Option<&[&str]>) -> i32 {
    let mut report = Report::new(
        cli,
        "exploration",
        "well-formed transcripts (status, login, transfer with cookies) under max frame {64,300,10000,2^21}, one frame mutated at each position of each protocol state before and after encryption: outer length ∈ {-1,MIN,0,1,n-1,n+1,max,max+1,2^31-1,over-long,6xff} (+200 KiB body after a refused prefix), declared inner lengths ∈ {-1,MIN,2^31-1,n+1000,max+1}, a VarInt inserted at every body position (consistent and stale outer length), byte substitutions (invalid UTF-8, enum ordinals, flag bytes), truncation at every byte + EOF, random bytes + EOF, RSA fields of every length class, secrets of wrong size; monitors: panic of the handler task, largest single allocation while the handler is polled, termination after EOF, bytes consumed after a refused prefix; distinct = (state, mutation class, detail)",
    );
    report.assume("a 2 GiB zeroed allocation request is lazily mapped on this machine, so forwarding it does not disturb the run; it is still recorded and judged");
    let cases = generate(cli);
    // a panic is caught and judged below; an *abort* (allocation failure, stack overflow, double
    // panic) would take the whole monitor down: every worker notes the case it is about to run, so
    // that ./check can attribute the abort to its input
    let progress_dir = std::path::PathBuf::from(std::env::var("VERIF_ROOT").unwrap_or_else(|_| "/verif".into())).join(".run").join("C04-progress");
    let _ = std::fs::remove_dir_all(&progress_dir);
    let _ = std::fs::create_dir_all(&progress_dir);
    let results = par_map(cases, cli.threads(), |i, c| {
        let slot = progress_dir.join(format!("{:?}", std::thread::current().id()).replace(['(', ')'], "_"));
        let _ = std::fs::write(&slot, format!("case {i}: state={} class={} mutation={} max_frame={}\n", c.state, c.class, c.detail, c.max_frame));
        let r = run(&c.sc);
        let bound = 8 * c.max_frame as usize + 256 * 1024;
        let mut findings: Vec<(String, String, Value)> = vec![];
        let st = c.state.split('/').nth(1).unwrap_or(&c.state).to_string();
        match &r.result {
            ServerResult::Panicked(msg) => {
                // stable identity: the panic message without its location
                let slug: String = msg.split('@').next().unwrap_or("").trim().chars().map(|ch| if ch.is_ascii_alphanumeric() { ch.to_ascii_lowercase() } else { '-' }).take(40).collect();
                findings.push((format!("panic/{}/{}", c.class, slug.trim_matches('-')), format!("the connection handler panicked: {msg}"), witness(&c.sc, &r, json!({"mutation": c.detail, "state": c.state}))));
            }
            ServerResult::Hung => findings.push((format!("runs-after-eof/{st}/{}", c.class), "listen() was still running 40 virtual seconds after the client's end of stream".into(), witness(&c.sc, &r, json!({"mutation": c.detail})))),
            ServerResult::Ok if c.must_err => findings.push((format!("malformed-input-accepted/{st}/{}", c.class), "listen() returned Ok for an input that is malformed beyond doubt".into(), witness(&c.sc, &r, json!({"mutation": c.detail})))),
            _ => {}
        }
        if r.net.eof_spin {
            findings.push((format!("spins-after-eof/{st}/{}", c.class), "the handler kept polling the stream (10 000+ times) after its end".into(), witness(&c.sc, &r, json!({"mutation": c.detail}))));
        }
        if r.alloc.max_single > bound {
            findings.push((
                format!("allocation/{}/{}", c.class, if r.alloc.max_single >= 1 << 30 { "gigabytes" } else { "out-of-proportion" }),
                format!("a single allocation of {} bytes was requested while handling (max frame {}, bound {})", r.alloc.max_single, c.max_frame, bound),
                witness(&c.sc, &r, json!({"mutation": c.detail, "state": c.state})),
            ));
        }
        if let Some(after) = c.refuse_after {
            // bytes sent before the mutant + the refused prefix; anything consumed beyond is body
            let before: usize = r.client.sent.iter().take_while(|s| !s.label.starts_with("mutant") && !s.label.ends_with(".0") && s.label != "EncryptionResponse*").map(|s| s.plain.len()).sum();
            let consumed_beyond = r.net.read_by_server.saturating_sub(before + after);
            if consumed_beyond > 64 * 1024 {
                findings.push((format!("body-consumed-after-refused-length/{st}"), format!("{consumed_beyond} bytes were consumed after a length prefix that had to be refused"), witness(&c.sc, &r, json!({"mutation": c.detail}))));
            }
            let mutant_seq = r.client.sent.iter().find(|s| s.label.starts_with("mutant") || s.label.ends_with(".0") || s.label == "EncryptionResponse*").map(|s| s.seq);
            if let Some(seq) = mutant_seq
                && r.client.received.iter().any(|x| x.seq > seq)
            {
                findings.push((format!("reply-after-refused-length/{st}"), "the server replied after a length prefix that had to be refused".into(), witness(&c.sc, &r, json!({"mutation": c.detail}))));
            }
        }
        let cell = format!("{} × {}", st, c.class);
        let sample = json!({"state": c.state, "mutation_class": c.class, "mutation": c.detail, "max_frame": c.max_frame, "result": r.result.kind(), "largest_allocation": r.alloc.max_single, "bytes_read_by_server": r.net.read_by_server, "bytes_sent": r.net.sent_by_client});
        (format!("{}/{}/{}/{}", c.state, c.class, c.detail, c.max_frame), cell, sample, findings, r.alloc.max_single, r.result.kind())
    });
    let mut matrix: BTreeMap<String, u64> = BTreeMap::new();
    let mut max_alloc = 0usize;
    let mut kinds: BTreeMap<String, u64> = BTreeMap::new();
    for (i, (key, cell, sample, findings, alloc, kind)) in results.into_iter().enumerate() {
        report.eval(Some(&key));
        *matrix.entry(cell).or_insert(0) += 1;
        *kinds.entry(kind).or_insert(0) += 1;
        max_alloc = max_alloc.max(alloc);
        if i % 3001 == 0 {
            report.sample(sample);
        }
        for (sig, what, w) in findings {
            report.violation(&sig, &what, w);
        }
    }
    report.set("state_x_mutation_class_matrix", json!(matrix));
    report.set("listen_results", json!(kinds));
    report.set("largest_single_allocation_observed", json!(max_alloc));
    let _ = std::fs::remove_dir_all(&progress_dir);
    if let Some(prefixes) = only {
        report.retain_violations(|sig| prefixes.iter().any(|p| sig.starts_with(p)));
    }
    report.finish()
}
