//! vp-conn: in-process monitors of `passage_protocol::connection::Connection` under virtual time
//! (properties C01 C02 C03 C04 C06 C07 C08 C10).

mod mk;
mod scenario;

use vp_common::{Cli, report};
use vp_sim::allocmon::CountingAlloc;

#[global_allocator]
static ALLOC: CountingAlloc = CountingAlloc;

fn main() {
    let cli = Cli::parse();
    report::watchdog(&cli.prop, if cli.tier == vp_common::Tier::Quick { 600 } else { 3600 });
    scenario::install_panic_hook();
    if let Err(e) = vp_common::refcrypto::self_test() {
        println!("[{}] INCONCLUSIVE: reference crypto self-test failed: {e}", cli.prop);
        std::process::exit(2);
    }
    let code = match cli.prop.as_str() {
        "smoke" => mk::smoke(&cli),
        other => {
            println!("[{other}] INCONCLUSIVE: vp-conn does not serve this property");
            2
        }
    };
    std::process::exit(code);
}
