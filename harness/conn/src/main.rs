//! vp-conn: in-process monitors of `passage_protocol::connection::Connection` under virtual time
//! (properties C01 C02 C03 C04 C06 C07 C08 C10).

mod c01;
mod c02;
mod c03;
mod c04;
mod c06;
mod c07;
mod c08;
mod c09conn;
mod c10;
mod cookie;
mod mk;
mod scenario;

use vp_common::{Cli, report};
use vp_sim::allocmon::CountingAlloc;

#[global_allocator]
static ALLOC: CountingAlloc = CountingAlloc;

fn main() {
    let cli = Cli::parse();
    report::watchdog(&cli.prop, if cli.tier == vp_common::Tier::Quick { 600 } else { 3600 });
    scenario::install_panic_hook();
    if let Err(e) = vp_common::refcrypto::self_test() {
        println!("[{}] INCONCLUSIVE: reference crypto self-test failed: {e}", cli.prop);
        std::process::exit(2);
    }
    if cli.prop == "C04" {
        // what the application's log output does with a client's text is part of what that client's
        // bytes cost: a subscriber that renders warnings and errors (and throws them away), which is
        // what the binary's default log level does
        let _ = tracing_subscriber::fmt().with_writer(std::io::sink).with_max_level(tracing::Level::WARN).try_init();
    }
    let code = match cli.prop.as_str() {
        "smoke" => mk::smoke(&cli),
        "C01" => c01::run_prop(&cli),
        "C02" => c02::run_prop(&cli),
        "C03" => c03::run_prop(&cli),
        "C04" => c04::run_prop(&cli),
        "C06" => c06::run_prop(&cli),
        "C07" => c07::run_prop(&cli),
        "C08" => c08::run_prop(&cli),
        "C05" => c08::run_cipher_switch(&cli),
        // C12 at the connection: the session service is asked about exactly the claimed user
        "C12" => c01::run_filtered(&cli, Some("service-asked-about-other-user")),
        "C10" => c10::run_prop(&cli),
        // C09 at the connection: the frames the router sends have the protocol's layout
        "C09" => c09conn::run_prop(&cli),
        // C11 at the connection: the hash is taken over the secret that keys this connection and the key
        // this client was given (which of its inputs go where is decided at the call site)
        "C11" => c01::run_filtered(&cli, Some("service-asked-with-other")),
        // C14 at the connection: the configured maximum frame length is enforced in every protocol state
        "C14" => c04::run_filtered(&cli, Some(&["malformed-input-accepted/", "body-consumed-after-refused-length/", "reply-after-refused-length/"])),
        // C18 at the connection: the allow/block lists and strategies are given the authenticated player
        // (and the strategy is offered exactly what the filters left: a target is "the first eligible" or
        // "the fullest eligible" among all of them, not among some)
        "C18" => c01::run_filtered_with(&cli, Some("routing-identity"), Some((&c03::scenarios_into, "strategy-input-differs-from-filter-output"))),
        other => {
            println!("[{other}] INCONCLUSIVE: vp-conn does not serve this property");
            2
        }
    };
    std::process::exit(code);
}
