//! Shared generators and log-derived facts.
use crate::scenario::*;
use passage_adapters::authentication::{Profile, ProfileProperty};
use serde_json::Value;
use std::time::Duration;
use vp_common::refcodec::Pkt;
use vp_common::refcrypto;
use vp_common::{Cli, Rng};
use vp_sim::recadapters::{AdapterScript, Call, CallRecord, Outcome, TargetRec};

pub fn ident(rng: &mut Rng, tag: &str) -> Ident {
    Ident { name: format!("{tag}_{}", rng.ascii_name(3, 9)), uuid: ((rng.u64() as u128) << 64) | rng.u64() as u128 }
}

/// A claimed name as a hostile client may send it: the Login Start codec accepts any string.
pub fn hostile_name(rng: &mut Rng) -> String {
    const SPECIAL: &[&str] = &[
        "\u{0}", "\t", "\n", "\r\n", "\u{1b}[0m", "\u{7f}", "\u{85}", "\u{9f}", "\u{200b}", "\u{202e}", " ", "&", "=", "#", "?", "%00", "%", "+", "/", "\\", "..", "\"", "'", ";",
        "ü", "Ω", "名", "😀", "&serverId=-1a2b", "\u{feff}",
    ];
    let base = rng.ascii_name(2, 8);
    let sp = *rng.pick(SPECIAL);
    match rng.below(5) {
        0 => format!("{sp}{base}"),
        1 => format!("{base}{sp}"),
        2 => {
            let cut = rng.usize_below(base.len() - 1) + 1;
            format!("{}{sp}{}", &base[..cut], &base[cut..])
        }
        3 => format!("{sp}{base}{}", *rng.pick(SPECIAL)),
        _ => sp.repeat(rng.range(1, 4) as usize),
    }
}

pub fn props(rng: &mut Rng, n: usize) -> Vec<Prop> {
    (0..n)
        .map(|i| Prop {
            name: if i == 0 { "textures".to_string() } else { format!("p{}_{}", i, rng.ascii_name(1, 5)) },
            // (a property may have an empty value: it is a property all the same)
            value: if rng.chance(1, 7) { String::new() } else { vp_common::report::hex(&rng.bytes_between(1, 24)) },
            signature: if rng.bool() { Some(vp_common::report::hex(&rng.bytes(12))) } else { None },
        })
        .collect()
}

pub fn profile(id: &Ident, props: &[Prop]) -> Profile {
    Profile {
        id: uuid::Uuid::from_u128(id.uuid),
        name: id.name.clone(),
        properties: props
            .iter()
            .map(|p| ProfileProperty { name: p.name.clone(), value: p.value.clone(), signature: p.signature.clone() })
            .collect(),
        profile_actions: vec![],
    }
}

pub fn target(id: &str, addr: &str) -> TargetRec {
    TargetRec { identifier: id.to_string(), address: addr.parse().expect("addr"), meta: vec![] }
}

pub fn secret16(rng: &mut Rng) -> [u8; 16] {
    let mut s = [0u8; 16];
    rng.fill(&mut s);
    s
}

pub fn random_addr(rng: &mut Rng) -> String {
    match rng.below(6) {
        0 => format!("[2001:db8::{:x}:{:x}]:{}", rng.below(0xffff), rng.below(0xffff), rng.range(1, 65535)),
        1 => format!("[::ffff:10.{}.{}.{}]:{}", rng.below(256), rng.below(256), rng.below(256), rng.range(1, 65535)),
        _ => format!("{}.{}.{}.{}:{}", rng.range(1, 223), rng.below(256), rng.below(256), rng.range(1, 254), *rng.pick(&[0u16, 1, 25565, 65535, 30000])),
    }
}

pub fn targets(rng: &mut Rng, n: usize) -> Vec<TargetRec> {
    (0..n)
        .map(|i| {
            let mut meta = vec![];
            for m in 0..rng.below(3) {
                meta.push((format!("k{m}"), rng.ascii_name(0, 6)));
            }
            meta.sort();
            TargetRec {
                identifier: if rng.chance(1, 6) { format!("sérvér-{i}-ü") } else { format!("srv-{i}-{}", rng.ascii_name(2, 6)) },
                address: random_addr(rng).parse().expect("generated address"),
                meta,
            }
        })
        .collect()
}

// ---------------------------------------------------------------------------------------------

#[derive(Clone, Debug, Default)]
pub struct Facts {
    pub names: Vec<&'static str>,
    pub enc_flag: Option<bool>,
    pub enc_key: Option<Vec<u8>>,
    pub login_success: Option<(u128, String)>,
    pub cookie_requests: Vec<String>,
    /// (key, payload, t_ns, index in the clientbound sequence)
    pub store_cookies: Vec<(String, Vec<u8>, u64, usize)>,
    pub transfers: Vec<(String, i32, u64, usize)>,
    pub disconnects: Vec<(Value, u64, usize)>,
    pub keep_alives: Vec<(u64, u64)>,
    pub auth_calls: Vec<CallRecord>,
    pub discover_calls: Vec<CallRecord>,
    pub filter_calls: Vec<CallRecord>,
    pub select_calls: Vec<CallRecord>,
    pub localize_calls: Vec<CallRecord>,
    pub status_calls: Vec<CallRecord>,
    pub undecodable: usize,
}

pub fn facts(run: &Run) -> Facts {
    let mut f = Facts { names: run.client.names(), ..Default::default() };
    for (i, r) in run.client.received.iter().enumerate() {
        match &r.pkt {
            Ok(Pkt::EncryptionRequest { public_key, should_authenticate, .. }) => {
                f.enc_flag = Some(*should_authenticate);
                f.enc_key = Some(public_key.clone());
            }
            Ok(Pkt::LoginSuccess { uuid, name, .. }) => f.login_success = Some((*uuid, name.clone())),
            Ok(Pkt::LoginCookieRequest { key }) => f.cookie_requests.push(key.clone()),
            Ok(Pkt::StoreCookie { key, payload }) => f.store_cookies.push((key.clone(), payload.clone(), r.t_ns, i)),
            Ok(Pkt::Transfer { host, port }) => f.transfers.push((host.clone(), *port, r.t_ns, i)),
            Ok(Pkt::ConfDisconnect { reason }) => f.disconnects.push((reason.clone(), r.t_ns, i)),
            Ok(Pkt::ConfKeepAliveOut { id }) => f.keep_alives.push((*id, r.t_ns)),
            Ok(_) => {}
            Err(_) => f.undecodable += 1,
        }
    }
    for c in &run.calls {
        match c.call {
            Call::Authenticate { .. } => f.auth_calls.push(c.clone()),
            Call::Discover => f.discover_calls.push(c.clone()),
            Call::Filter { .. } => f.filter_calls.push(c.clone()),
            Call::Select { .. } => f.select_calls.push(c.clone()),
            Call::Localize { .. } => f.localize_calls.push(c.clone()),
            Call::Status { .. } => f.status_calls.push(c.clone()),
        }
    }
    f
}

pub const AUTH_KEY: &str = "passage:authentication";
pub const SESSION_KEY: &str = "passage:session";

/// Splits a stored/presented auth cookie into (tag ok under `secret`, parsed JSON body).
pub fn open_cookie(payload: &[u8], secret: &[u8]) -> (bool, Option<Value>) {
    if payload.len() < 32 {
        return (false, None);
    }
    let tag_ok = refcrypto::hmac_sha256(secret, &payload[32..])[..] == payload[..32];
    (tag_ok, serde_json::from_slice::<Value>(&payload[32..]).ok())
}

pub fn props_json(props: &[Prop]) -> Value {
    Value::Array(
        props
            .iter()
            .map(|p| serde_json::json!({"name": p.name, "value": p.value, "signature": p.signature}))
            .collect(),
    )
}

/// A standard "routes fine" adapter script.
pub fn routing_adapters(auth: Option<(&Ident, &[Prop])>, targets: Vec<TargetRec>) -> AdapterScript {
    AdapterScript {
        auth: match auth {
            Some((id, p)) => Outcome::Ok(profile(id, p)),
            None => Outcome::Err,
        },
        // which of the adapter error kinds a scripted failure is reported as varies with the scenario
        error_kind: targets.iter().flat_map(|t| t.identifier.bytes()).fold(targets.len() as u8, |a, b| a.wrapping_mul(31).wrapping_add(b)),
        discovery: Outcome::Ok(targets),
        ..Default::default()
    }
}

pub fn smoke(cli: &Cli) -> i32 {
    let mut rng = Rng::new(cli.seed);
    let claimed = ident(&mut rng, "claim");
    let authed = ident(&mut rng, "auth");
    let p = ScriptParams {
        intent: Intent::Login,
        address: "play.example.org",
        port: 25565,
        protocol: 770,
        claimed: &claimed,
        locale: "de_DE",
        ping_payload: 7,
        client_info_delay: Duration::from_secs(1),
    };
    let plan = default_plan(&p, secret16(&mut rng));
    let adapters = AdapterScript {
        auth: Outcome::Ok(profile(&authed, &[])),
        discovery: Outcome::Ok(vec![target("lobby-1", "10.1.2.3:25570")]),
        discovery_latency: Duration::from_secs(40),
        ..Default::default()
    };
    let sc = default_scenario("smoke", plan, adapters, ServerCfg { secret: Some(b"k".to_vec()), ..Default::default() });
    let run = run(&sc);
    println!("{}", serde_json::to_string_pretty(&run_summary(&run)).unwrap_or_default());
    0
}
