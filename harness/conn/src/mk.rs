//! Shared generators.
use crate::scenario::*;
use std::time::Duration;
use vp_common::{Cli, Rng};
use vp_sim::recadapters::{AdapterScript, Outcome, TargetRec};
use passage_adapters::authentication::{Profile, ProfileProperty};

pub fn ident(rng: &mut Rng, tag: &str) -> Ident {
    Ident { name: format!("{tag}_{}", rng.ascii_name(3, 9)), uuid: ((rng.u64() as u128) << 64) | rng.u64() as u128 }
}

pub fn profile(id: &Ident, props: &[Prop]) -> Profile {
    Profile {
        id: uuid::Uuid::from_u128(id.uuid),
        name: id.name.clone(),
        properties: props.iter().map(|p| ProfileProperty { name: p.name.clone(), value: p.value.clone(), signature: p.signature.clone() }).collect(),
        profile_actions: vec![],
    }
}

pub fn target(id: &str, addr: &str) -> TargetRec {
    TargetRec { identifier: id.to_string(), address: addr.parse().expect("addr"), meta: vec![] }
}

pub fn smoke(cli: &Cli) -> i32 {
    let mut rng = Rng::new(cli.seed);
    let claimed = ident(&mut rng, "claim");
    let authed = ident(&mut rng, "auth");
    let p = ScriptParams { intent: Intent::Login, address: "play.example.org", port: 25565, protocol: 770, claimed: &claimed, locale: "de_DE", ping_payload: 7, client_info_delay: Duration::from_secs(1) };
    let mut secret = [0u8; 16];
    rng.fill(&mut secret);
    let plan = default_plan(&p, secret);
    let adapters = AdapterScript {
        auth: Outcome::Ok(profile(&authed, &[])),
        discovery: Outcome::Ok(vec![target("lobby-1", "10.1.2.3:25570")]),
        discovery_latency: Duration::from_secs(40),
        ..Default::default()
    };
    let sc = default_scenario("smoke", plan, adapters, ServerCfg { secret: Some(b"k".to_vec()), ..Default::default() });
    let run = run(&sc);
    println!("{}", serde_json::to_string_pretty(&run_summary(&run)).unwrap());
    0
}
