//! One scenario = configuration + adapter script + client plan + transport plans. `run` executes it
//! against the real `Connection` on a current-thread runtime with the clock paused and returns
//! everything that was observed.

use passage_protocol::connection::Connection;
use serde_json::{Value, json};
use std::net::SocketAddr;
use std::sync::Arc;
use std::time::Duration;
use vp_common::refcodec::{Phase, Pkt};
use vp_sim::allocmon::{self, AllocStats, Tracked};
use vp_sim::client::{Act, Client, ClientLog, ClientPlan, CookieAnswer, Echo, EncVariant, Out, SegPlan};
use vp_sim::recadapters::{AdapterScript, CallRecord, Rec};
use vp_sim::simnet::{self, IoEvent, NetStats, ReadPlan, WritePlan};

#[derive(Clone, Copy, Debug, PartialEq, Eq, Hash)]
pub enum Intent {
    Status,
    Login,
    Transfer,
}

impl Intent {
    pub fn next_state(self) -> i32 {
        match self {
            Intent::Status => 1,
            Intent::Login => 2,
            Intent::Transfer => 3,
        }
    }
    pub fn name(self) -> &'static str {
        match self {
            Intent::Status => "status",
            Intent::Login => "login",
            Intent::Transfer => "transfer",
        }
    }
}

#[derive(Clone, Debug)]
pub struct ServerCfg {
    pub secret: Option<Vec<u8>>,
    pub max_frame: Option<i32>,
    pub expiry: Option<u64>,
    pub client_addr: SocketAddr,
}

impl Default for ServerCfg {
    fn default() -> Self {
        ServerCfg { secret: None, max_frame: None, expiry: None, client_addr: "203.0.113.7:40123".parse().expect("literal") }
    }
}

#[derive(Clone, Debug)]
pub struct Scenario {
    pub label: String,
    pub cfg: ServerCfg,
    pub adapters: AdapterScript,
    pub client: ClientPlan,
    pub read_plan: ReadPlan,
    pub write_plan: WritePlan,
    /// virtual seconds the server gets after the client is done and has closed its side
    pub grace: Duration,
    pub keep_io_log: bool,
}

#[derive(Clone, Debug, PartialEq)]
pub enum ServerResult {
    Ok,
    /// variant name of passage_protocol::Error, display text
    Err(String, String),
    Panicked(String),
    /// `listen()` had not returned `grace` virtual seconds after the client's end of stream
    Hung,
}

impl ServerResult {
    pub fn kind(&self) -> String {
        match self {
            ServerResult::Ok => "Ok".into(),
            ServerResult::Err(k, _) => format!("Err({k})"),
            ServerResult::Panicked(_) => "Panicked".into(),
            ServerResult::Hung => "Hung".into(),
        }
    }
    pub fn is_err(&self) -> bool {
        matches!(self, ServerResult::Err(..))
    }
}

#[derive(Clone, Debug)]
pub struct Run {
    pub client: ClientLog,
    pub calls: Vec<CallRecord>,
    pub result: ServerResult,
    /// virtual time at which listen() returned
    pub result_at_ns: Option<u64>,
    /// listen() was still running when the client had finished (before the harness closed the client side)
    pub running_after_client: bool,
    pub alloc: AllocStats,
    pub net: NetStats,
    pub io_log: Vec<IoEvent>,
    pub end_ns: u64,
}

fn error_kind(e: &passage_protocol::Error) -> String {
    let dbg = format!("{e:?}");
    dbg.chars().take_while(|c| c.is_ascii_alphanumeric() || *c == '_').collect()
}

thread_local! {
    pub static LAST_PANIC: std::cell::RefCell<Option<String>> = const { std::cell::RefCell::new(None) };
}

/// Installs a quiet panic hook that remembers message and location per thread.
pub fn install_panic_hook() {
    std::panic::set_hook(Box::new(|info| {
        let msg = if let Some(s) = info.payload().downcast_ref::<&str>() {
            (*s).to_string()
        } else if let Some(s) = info.payload().downcast_ref::<String>() {
            s.clone()
        } else {
            "<non-string panic>".to_string()
        };
        let loc = info.location().map(|l| format!("{}:{}", l.file(), l.line())).unwrap_or_default();
        let _ = LAST_PANIC.try_with(|p| *p.borrow_mut() = Some(format!("{msg} @ {loc}")));
    }));
}

pub fn run(sc: &Scenario) -> Run {
    let rt = tokio::runtime::Builder::new_current_thread()
        .enable_time()
        .start_paused(true)
        .build()
        .expect("runtime");
    rt.block_on(run_async(sc))
}

async fn run_async(sc: &Scenario) -> Run {
    let t0 = tokio::time::Instant::now();
    let (stream, client_end) = simnet::pair(sc.read_plan.clone(), sc.write_plan.clone(), sc.keep_io_log);
    let rec = Rec::new(sc.adapters.clone());
    let a = Arc::new(rec.clone());
    let mut conn = Connection::new(stream, a.clone(), a.clone(), a.clone(), a.clone(), a.clone(), a.clone())
        .with_client_address(sc.cfg.client_addr)
        .with_auth_secret(sc.cfg.secret.clone());
    if let Some(m) = sc.cfg.max_frame {
        conn = conn.with_max_packet_length(m);
    }
    if let Some(e) = sc.cfg.expiry {
        conn = conn.with_auth_cookie_expiry(e);
    }
    allocmon::reset();
    LAST_PANIC.with(|p| *p.borrow_mut() = None);
    let mut server = tokio::spawn(Tracked::new(async move {
        let r = conn.listen().await;
        let at = tokio::time::Instant::now();
        drop(conn);
        (r, at)
    }));

    let client_log = Client::new(&client_end, sc.client.clone()).run().await;

    // the client is done: is the server? (give the server task a few turns to finish)
    let mut running_after_client = false;
    for _ in 0..256 {
        if server.is_finished() {
            break;
        }
        tokio::task::yield_now().await;
    }
    let joined = if server.is_finished() {
        Some((&mut server).await)
    } else {
        running_after_client = true;
        client_end.close();
        match tokio::time::timeout(sc.grace, &mut server).await {
            Ok(j) => Some(j),
            Err(_) => {
                server.abort();
                None
            }
        }
    };
    let (result, result_at_ns) = match joined {
        None => (ServerResult::Hung, None),
        Some(Ok((r, at))) => {
            let at = at.saturating_duration_since(t0).as_nanos() as u64;
            match r {
                Ok(()) => (ServerResult::Ok, Some(at)),
                Err(e) => (ServerResult::Err(error_kind(&e), e.to_string()), Some(at)),
            }
        }
        Some(Err(join_err)) => {
            if join_err.is_panic() {
                let msg = LAST_PANIC.with(|p| p.borrow().clone()).unwrap_or_else(|| "panic".into());
                (ServerResult::Panicked(msg), None)
            } else {
                (ServerResult::Hung, None)
            }
        }
    };
    let alloc = allocmon::stats();
    Run {
        client: client_log,
        calls: rec.calls(),
        result,
        result_at_ns,
        running_after_client,
        alloc,
        net: client_end.stats(),
        io_log: if sc.keep_io_log { client_end.io_log() } else { vec![] },
        end_ns: tokio::time::Instant::now().saturating_duration_since(t0).as_nanos() as u64,
    }
}

// ---------------------------------------------------------------------------------------------
// builders

#[derive(Clone, Debug, PartialEq)]
pub struct Ident {
    pub name: String,
    pub uuid: u128,
}

pub fn handshake(intent: Intent, address: &str, port: u16, protocol: i32) -> Pkt {
    Pkt::Handshake { protocol, address: address.to_string(), port, next_state: intent.next_state() }
}

pub fn client_information(locale: &str) -> Pkt {
    Pkt::ClientInformation {
        locale: locale.to_string(),
        view_distance: 10,
        chat_mode: 0,
        chat_colors: true,
        skin_parts: 0x7f,
        main_hand: 1,
        text_filtering: false,
        allow_listing: true,
        particle_status: 0,
    }
}

pub fn send(label: &str, p: Pkt) -> Act {
    Act::Send { label: label.to_string(), out: Out::Pkt(p) }
}

pub struct ScriptParams<'a> {
    pub intent: Intent,
    pub address: &'a str,
    pub port: u16,
    pub protocol: i32,
    pub claimed: &'a Ident,
    pub locale: &'a str,
    pub ping_payload: u64,
    /// virtual delay between Login Acknowledged and Client Information
    pub client_info_delay: Duration,
}

pub fn default_script(p: &ScriptParams) -> Vec<Act> {
    let mut s = vec![send("Handshake", handshake(p.intent, p.address, p.port, p.protocol))];
    match p.intent {
        Intent::Status => {
            s.push(send("StatusRequest", Pkt::StatusRequest));
            s.push(Act::AwaitPkt { name: "StatusResponse", nth: 1 });
            s.push(send("StatusPing", Pkt::StatusPing { payload: p.ping_payload }));
            s.push(Act::AwaitPkt { name: "StatusPong", nth: 1 });
            s.push(Act::AwaitClose);
        }
        Intent::Login | Intent::Transfer => {
            s.push(send("LoginStart", Pkt::LoginStart { name: p.claimed.name.clone(), uuid: p.claimed.uuid }));
            s.push(Act::AwaitPkt { name: "EncryptionRequest", nth: 1 });
            s.push(Act::EncryptionResponse);
            s.push(Act::AwaitPkt { name: "LoginSuccess", nth: 1 });
            s.push(send("LoginAcknowledged", Pkt::LoginAcknowledged));
            if !p.client_info_delay.is_zero() {
                s.push(Act::Sleep(p.client_info_delay));
            }
            s.push(send("ClientInformation", client_information(p.locale)));
            s.push(Act::AwaitClose);
        }
    }
    s
}

pub fn default_plan(p: &ScriptParams, secret: [u8; 16]) -> ClientPlan {
    ClientPlan {
        script: default_script(p),
        cookies: vec![],
        cookie_answers: vec![],
        echo: Echo::After(Duration::ZERO),
        enc: EncVariant::Honest,
        secret,
        seg: SegPlan::default(),
        deadline: Duration::from_secs(600),
        after_handshake: if p.intent == Intent::Status { Phase::Status } else { Phase::Login },
    }
}

pub fn default_scenario(label: &str, plan: ClientPlan, adapters: AdapterScript, cfg: ServerCfg) -> Scenario {
    Scenario {
        label: label.to_string(),
        cfg,
        adapters,
        client: plan,
        read_plan: ReadPlan::default(),
        write_plan: WritePlan::default(),
        grace: Duration::from_secs(40),
        keep_io_log: false,
    }
}

#[allow(dead_code)]
pub fn unused(_: CookieAnswer) {}

// ---------------------------------------------------------------------------------------------
// auth cookie construction (independent of passage's types: JSON by hand + reference HMAC)

#[derive(Clone, Debug, PartialEq)]
pub struct Prop {
    pub name: String,
    pub value: String,
    pub signature: Option<String>,
}

pub fn uuid_string(u: u128) -> String {
    let h = format!("{u:032x}");
    format!("{}-{}-{}-{}-{}", &h[0..8], &h[8..12], &h[12..16], &h[16..20], &h[20..32])
}

pub fn parse_uuid(s: &str) -> Option<u128> {
    let h: String = s.chars().filter(|c| *c != '-').collect();
    if h.len() != 32 {
        return None;
    }
    u128::from_str_radix(&h, 16).ok()
}

pub fn auth_cookie_json(timestamp: u64, client_addr: &str, ident: &Ident, target: Option<&str>, props: &[Prop]) -> Value {
    json!({
        "timestamp": timestamp,
        "client_addr": client_addr,
        "user_name": ident.name,
        "user_id": uuid_string(ident.uuid),
        "target": target,
        "profile_properties": props.iter().map(|p| json!({"name": p.name, "value": p.value, "signature": p.signature})).collect::<Vec<_>>(),
        "extra": {},
    })
}

pub fn now_unix() -> u64 {
    std::time::SystemTime::now().duration_since(std::time::UNIX_EPOCH).map(|d| d.as_secs()).unwrap_or(0)
}

// ---------------------------------------------------------------------------------------------
// witness helpers

pub fn run_summary(run: &Run) -> Value {
    json!({
        "result": run.result.kind(),
        "result_detail": format!("{:?}", run.result),
        "result_at_s": run.result_at_ns.map(|n| n as f64 / 1e9),
        "clientbound": run.client.received.iter().map(|r| json!({
            "t_s": r.t_ns as f64 / 1e9,
            "packet": match &r.pkt { Ok(p) => format!("{p:?}"), Err(e) => format!("undecodable id={} ({e})", r.id) },
        })).collect::<Vec<_>>(),
        "serverbound": run.client.sent.iter().map(|s| json!({
            "t_s": s.t_ns as f64 / 1e9, "label": s.label, "len": s.plain.len(), "encrypted": s.encrypted,
        })).collect::<Vec<_>>(),
        "adapter_calls": run.calls.iter().map(|c| json!({
            "t_s": c.t_ns as f64 / 1e9, "done_s": c.done_ns.map(|n| n as f64 / 1e9), "call": format!("{:?}", c.call),
        })).collect::<Vec<_>>(),
        "garbage_clientbound": run.client.garbage.as_ref().map(|(t, b)| json!({"t_s": *t as f64 / 1e9, "bytes": vp_common::report::hex(&b[..b.len().min(64)])})),
        "incomplete_tail": run.client.incomplete_tail,
        "alloc_max_single": run.alloc.max_single,
        "alloc_total": run.alloc.total,
        "net": format!("{:?}", run.net),
        "end_s": run.end_ns as f64 / 1e9,
    })
}

pub fn witness(sc: &Scenario, run: &Run, extra: Value) -> Value {
    json!({
        "scenario": format!("{sc:#?}"),
        "observed": run_summary(run),
        "detail": extra,
    })
}
