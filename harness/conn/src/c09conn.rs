//! C09 at the connection: what the router puts on the wire is the protocol's layout for the packet
//! it means - whatever protocol version the handshake names. Every clientbound frame of complete
//! status, login and transfer exchanges is decoded by the independent codec (which refuses trailing
//! bytes) and encoded again; the bytes must be the same.

use crate::mk::{self, AUTH_KEY};
use crate::scenario::*;
use serde_json::json;
use std::time::Duration;
use vp_common::refcodec::Pkt;
use vp_common::{Cli, Report, Rng};

pub fn run_prop(cli: &Cli) -> i32 {
    let mut report = Report::new(
        cli,
        "exploration",
        "connection-level part of C09: complete status / login / transfer exchanges for handshake protocol versions {0, 47, 765..=775, snapshot numbering, -1, i32::MAX}, with and without a secret; every clientbound frame must decode under the independent codec without trailing bytes and re-encode to the same bytes; distinct = (intent, protocol version, secret)",
    );
    let versions: Vec<i32> = [0, 47, 765, 766, 767, 768, 769, 770, 771, 772, 773, 774, 775, 0x4000_0100, -1, i32::MAX].to_vec();
    let mut rng = Rng::stream(cli.seed, 0xC09);
    for &protocol in &versions {
        for intent in [Intent::Status, Intent::Login, Intent::Transfer] {
            for with_secret in [false, true] {
                let claimed = mk::ident(&mut rng, "claimed");
                let authed = mk::ident(&mut rng, "vouched");
                let p = ScriptParams { intent, address: "layout.example.org", port: 25565, protocol, claimed: &claimed, locale: "en_us", ping_payload: rng.u64(), client_info_delay: Duration::ZERO };
                let mut plan = default_plan(&p, mk::secret16(&mut rng));
                plan.cookies = vec![(AUTH_KEY.to_string(), None)];
                let np = rng.below(3) as usize;
                let adapters = mk::routing_adapters(Some((&authed, &mk::props(&mut rng, np))), mk::targets(&mut rng, 2));
                let cfg = ServerCfg { secret: if with_secret { Some(b"layout-secret".to_vec()) } else { None }, ..Default::default() };
                let class = format!("{}/protocol-{protocol}/{}", intent.name(), if with_secret { "secret" } else { "nosecret" });
                let sc = default_scenario(&class, plan, adapters, cfg);
                let r = run(&sc);
                report.eval(Some(&class));
                report.count("clientbound frames decoded and re-encoded", r.client.received.len() as u64);
                let mut problems = vec![];
                let mut other_layout = false;
                for rec in &r.client.received {
                    match &rec.pkt {
                        // protocol 766 and 767 end Login Success with one more boolean ("strict error
                        // handling"); which of the two layouts those versions are sent is not judged
                        Err(e) if (protocol == 766 || protocol == 767) && rec.id == 0x02 && rec.phase == vp_common::refcodec::Phase::Login && e.contains("Trailing(1)") => other_layout = true,
                        Err(e) => problems.push(format!("frame with id {:#04x} ({} bytes) does not decode: {e}", rec.id, rec.frame_len)),
                        Ok(p) => {
                            // text components may be spelt in more than one way (NBT): only the fixed layouts are compared by length
                            let fixed = matches!(p, Pkt::LoginSuccess { .. } | Pkt::EncryptionRequest { .. } | Pkt::LoginCookieRequest { .. } | Pkt::Transfer { .. } | Pkt::StoreCookie { .. } | Pkt::ConfKeepAliveOut { .. } | Pkt::StatusPong { .. } | Pkt::StatusResponse { .. });
                            if fixed && p.frame().len() != rec.frame_len {
                                problems.push(format!("{} arrived in a frame of {} bytes, the protocol layout of that value has {}", p.name(), rec.frame_len, p.frame().len()));
                            }
                        }
                    }
                }
                if r.client.garbage.is_some() || r.client.incomplete_tail > 0 {
                    problems.push("bytes behind the last whole frame".into());
                }
                let done = match intent {
                    Intent::Status => r.client.first("StatusPong").is_some(),
                    _ => r.client.first("Transfer").is_some(),
                };
                // (the harness' client speaks the current layout and stops at the other one)
                if !done && problems.is_empty() && !other_layout {
                    problems.push(format!("the exchange did not complete ({})", r.result.kind()));
                }
                if report.wants_sample() {
                    report.sample(json!({"case": class, "clientbound": r.client.names()}));
                }
                if !problems.is_empty() {
                    report.violation(
                        &format!("wire-layout-at-the-connection/{}", intent.name()),
                        &format!("handshake protocol {protocol}: {}", problems.join("; ")),
                        witness(&sc, &r, json!({"protocol": protocol, "problems": problems})),
                    );
                }
            }
        }
    }
    // frames behind a frame whose sending was interrupted: the selection (or the discovery, with the
    // selection still to come) completes while the client has taken only a part of a Keep Alive; what
    // follows on the wire are whole frames of their own, each with the layout of its packet
    {
        let claimed = mk::ident(&mut rng, "claimed");
        let authed = mk::ident(&mut rng, "vouched");
        for (stage, lat) in [("selection", [0u64, 0, 16_100]), ("discovery", [16_100, 0, 20_000])] {
            let p = ScriptParams { intent: Intent::Login, address: "layout.example.org", port: 25565, protocol: 770, claimed: &claimed, locale: "en_us", ping_payload: 0, client_info_delay: Duration::ZERO };
            let mut plan = default_plan(&p, mk::secret16(&mut rng));
            plan.cookies = vec![(AUTH_KEY.to_string(), None)];
            let mut adapters = mk::routing_adapters(Some((&authed, &[])), mk::targets(&mut rng, 2));
            adapters.discovery_latency = Duration::from_millis(lat[0]);
            adapters.strategy_latency = Duration::from_millis(lat[2]);
            let cfg = ServerCfg { secret: Some(b"layout-secret".to_vec()), ..Default::default() };
            let base = default_scenario("interrupted-send", plan, adapters, cfg);
            let probe = run(&base);
            let off: usize = probe.client.received.iter().take_while(|r| !matches!(r.pkt, Ok(Pkt::ConfKeepAliveOut { .. }))).map(|r| r.frame_len).sum();
            let Some(ka) = probe.client.received.iter().find(|r| matches!(r.pkt, Ok(Pkt::ConfKeepAliveOut { .. }))) else {
                report.inconclusive("interrupted send: the undisturbed run saw no Keep Alive");
                continue;
            };
            for k in 1..ka.frame_len {
                let mut sc = base.clone();
                sc.write_plan = vp_sim::simnet::WritePlan { steps: vec![], stalls: vec![(off + k, Duration::from_millis(300))] };
                let r = run(&sc);
                let class = format!("login/interrupted-keep-alive@{k}/{stage}-completes");
                report.eval(Some(&class));
                report.count("clientbound frames decoded and re-encoded", r.client.received.len() as u64);
                let mut problems = vec![];
                for rec in &r.client.received {
                    match &rec.pkt {
                        Err(e) => problems.push(format!("frame with id {:#04x} ({} bytes) does not decode: {e}", rec.id, rec.frame_len)),
                        Ok(p) => {
                            let fixed = matches!(p, Pkt::LoginSuccess { .. } | Pkt::EncryptionRequest { .. } | Pkt::LoginCookieRequest { .. } | Pkt::Transfer { .. } | Pkt::StoreCookie { .. } | Pkt::ConfKeepAliveOut { .. });
                            if fixed && p.frame().len() != rec.frame_len {
                                problems.push(format!("{} arrived in a frame of {} bytes, the protocol layout of that value has {}", p.name(), rec.frame_len, p.frame().len()));
                            }
                        }
                    }
                }
                if r.client.garbage.is_some() || r.client.incomplete_tail > 0 {
                    problems.push("bytes behind the last whole frame".into());
                }
                if r.client.first("Transfer").is_none() && problems.is_empty() {
                    problems.push(format!("the exchange did not complete ({})", r.result.kind()));
                }
                if !problems.is_empty() {
                    report.violation(
                        "wire-layout-at-the-connection/after-an-interrupted-send",
                        &format!("the {stage} completed while the client had taken {k} of {} bytes of a Keep Alive: {}", ka.frame_len, problems.join("; ")),
                        witness(&sc, &r, json!({"keep_alive_bytes_taken_before_the_stall": k, "problems": problems})),
                    );
                }
            }
        }
    }
    report.finish()
}
