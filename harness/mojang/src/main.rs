//! C12 — client-chosen names cannot alter the session-server request.
//!
//! The real `passage_adapters_http::MojangAdapter::authenticate` is run against a hand-rolled
//! plain-HTTP mock of the session server on loopback (hook H1: `PASSAGE_VERIF_SESSION_URL`). The
//! mock records the *raw request line* of every request and answers as the scenario prescribes
//! (profile / 204 / HTTP error / garbage / dropped connection). The oracle splits the raw line by
//! hand (no URL library) and checks: method, exact path, exactly one `username` decoding to the
//! claimed name and exactly one `serverId` equal to the independently computed hash, nothing else;
//! and that the adapter's result is `Ok(profile served)` exactly for a 2xx JSON profile.
//!
//! Scenarios run strictly one after another, so every recorded request belongs to the scenario in
//! flight (no correlation by content is needed — content is what is being judged).

use passage_adapters::authentication::{AuthenticationAdapter, Profile};
use passage_adapters_http::MojangAdapter;
use serde_json::{Value, json};
use std::collections::BTreeSet;
use std::net::SocketAddr;
use std::sync::atomic::{AtomicU64, Ordering};
use std::sync::{Arc, Mutex};
use std::time::Duration;
use tokio::io::{AsyncReadExt, AsyncWriteExt};
use tokio::net::{TcpListener, TcpStream};
use uuid::Uuid;
use vp_common::report::{hex, unhex};
use vp_common::{Cli, Report, Rng, refcrypto, report};

const PATH: &str = "/session/minecraft/hasJoined";
const MAX_HEAD: usize = 1 << 20;

// ------------------------------------------------------------------------------------------------
// scenario
// ------------------------------------------------------------------------------------------------

#[derive(Clone, Debug, PartialEq)]
struct ExpProfile {
    id: String,
    name: String,
    /// (name, value, signature)
    properties: Vec<(String, String, Option<String>)>,
}

#[derive(Clone, Debug)]
struct Plan {
    /// profile | no-content | http-error | garbage | drop
    kind: String,
    status: u16,
    body: Vec<u8>,
    /// close the connection after reading the request, without answering
    drop: bool,
    /// `Some` exactly when the answer is a 2xx JSON profile
    expect: Option<ExpProfile>,
}

#[derive(Clone, Debug)]
struct Case {
    idx: u64,
    category: String,
    name: String,
    uuid: Uuid,
    server_id: String,
    secret: Vec<u8>,
    public: Vec<u8>,
    plan: Plan,
}

fn plan_to_json(p: &Plan) -> Value {
    json!({
        "kind": p.kind,
        "status": p.status,
        "body_hex": hex(&p.body),
        "body_text": String::from_utf8_lossy(&p.body).chars().take(400).collect::<String>(),
        "drop": p.drop,
        "expect_profile": p.expect.as_ref().map(|e| json!({
            "id": e.id,
            "name": e.name,
            "properties": e.properties.iter().map(|(n, v, s)| json!({"name": n, "value": v, "signature": s})).collect::<Vec<_>>(),
        })),
    })
}

fn case_to_json(c: &Case) -> Value {
    json!({
        "idx": c.idx,
        "category": c.category,
        "name": c.name,
        "name_utf8_hex": hex(c.name.as_bytes()),
        "name_chars": c.name.chars().count(),
        "uuid": c.uuid.to_string(),
        "server_id": c.server_id,
        "shared_secret_hex": hex(&c.secret),
        "encoded_public_hex": hex(&c.public),
        "plan": plan_to_json(&c.plan),
    })
}

fn case_from_json(v: &Value) -> Option<Case> {
    let s = |k: &str| v.get(k).and_then(|x| x.as_str()).map(|x| x.to_string());
    let p = v.get("plan")?;
    let expect = match p.get("expect_profile") {
        Some(Value::Object(e)) => Some(ExpProfile {
            id: e.get("id")?.as_str()?.to_string(),
            name: e.get("name")?.as_str()?.to_string(),
            properties: e
                .get("properties")?
                .as_array()?
                .iter()
                .map(|q| {
                    (
                        q.get("name").and_then(|x| x.as_str()).unwrap_or("").to_string(),
                        q.get("value").and_then(|x| x.as_str()).unwrap_or("").to_string(),
                        q.get("signature").and_then(|x| x.as_str()).map(|x| x.to_string()),
                    )
                })
                .collect(),
        }),
        _ => None,
    };
    Some(Case {
        idx: v.get("idx").and_then(|x| x.as_u64()).unwrap_or(0),
        category: s("category").unwrap_or_else(|| "replay".into()),
        name: s("name")?,
        uuid: Uuid::parse_str(&s("uuid")?).ok()?,
        server_id: s("server_id")?,
        secret: unhex(&s("shared_secret_hex")?),
        public: unhex(&s("encoded_public_hex")?),
        plan: Plan {
            kind: p.get("kind")?.as_str()?.to_string(),
            status: p.get("status")?.as_u64()? as u16,
            body: unhex(p.get("body_hex")?.as_str()?),
            drop: p.get("drop").and_then(|x| x.as_bool()).unwrap_or(false),
            expect,
        },
    })
}

// ------------------------------------------------------------------------------------------------
// workload
// ------------------------------------------------------------------------------------------------

const RICH: &[char] = &[
    '&', '=', '#', '?', '%', '+', '/', '\\', ' ', ';', ':', '@', '\'', '"', '&', '=', '#', '%', '+', ' ',
    'a', 'B', 'z', 'Q', '0', '7', '_', '-', '.', '~', '\t', '\r', '\n', '\0', '\u{1b}', '\u{7f}', '\u{1}',
    'é', 'ß', 'Ж', 'É', '日', '本', '€', '😀', '𝔘', '<', '>', '[', ']', '{', '}', '|', '^', '`', ',', '!',
    '$', '(', ')', '*', '\u{85}', '\u{2028}', '\u{feff}', '\u{a0}',
];
const SPECIAL: &[char] = &[
    '&', '=', '#', '?', '%', '+', '/', '\\', ' ', ';', ':', '@', '\'', '"', '\t', '\r', '\n', '\0',
];
const CONTROL: &[char] = &[
    '\0', '\u{1}', '\u{7}', '\u{8}', '\t', '\n', '\u{b}', '\u{c}', '\r', '\u{1b}', '\u{1f}', '\u{7f}',
    '\u{80}', '\u{85}', '\u{9f}',
];

fn non_ascii_char(rng: &mut Rng) -> char {
    loop {
        let cp = match rng.below(3) {
            0 => rng.range(0x80, 0x7ff) as u32,
            1 => rng.range(0x800, 0xffff) as u32,
            _ => rng.range(0x10000, 0x10ffff) as u32,
        };
        if let Some(c) = char::from_u32(cp) {
            return c;
        }
    }
}

fn random_hash(rng: &mut Rng) -> String {
    let sid = rng.ascii_name(0, 12);
    let secret = rng.bytes(16);
    let key = rng.bytes(162);
    refcrypto::minecraft_hash_ref(&sid, &secret, &key)
}

fn hexdigit(rng: &mut Rng) -> char {
    *rng.pick(&['0', '1', '2', '3', '4', '5', '6', '7', '8', '9', 'a', 'b', 'c', 'd', 'e', 'f', 'A', 'B', 'C', 'D', 'E', 'F'])
}

fn insert_at(base: &str, pos_class: u64, what: &str) -> String {
    let chars: Vec<char> = base.chars().collect();
    let at = match pos_class {
        0 => 0,
        1 => chars.len(),
        _ => chars.len() / 2,
    };
    let mut s: String = chars[..at].iter().collect();
    s.push_str(what);
    s.extend(chars[at..].iter());
    s
}

/// Fixed, always-run names (one per shape of trouble), so the shapes that fire do not depend on
/// the seed.
fn fixed_names(rng: &mut Rng) -> Vec<String> {
    let other = random_hash(rng);
    let mut v: Vec<String> = vec![
        format!("Victim&serverId={other}"),
        "Victim#".into(),
        format!("Victim#&serverId={other}"),
        format!("Victim&serverId={other}#"),
        "../../other?x=".into(),
        "/../../../other".into(),
        "a b".into(),
        "a+b".into(),
        "a+b c".into(),
        "A&b".into(),
        "a&B=c".into(),
        "a=b".into(),
        "%26".into(),
        "a%26serverId%3Dx".into(),
        "Victim%23".into(),
        "%41lice".into(),
        "a%".into(),
        "a%zz".into(),
        "%".into(),
        "%%".into(),
        "%2".into(),
        "%00".into(),
        "a\tb".into(),
        "a\r\nb".into(),
        "a\r\nHost: evil\r\n\r\nGET /x".into(),
        "\0".into(),
        "a\0b".into(),
        "".into(),
        "é".into(),
        "É".into(),
        "日本語".into(),
        "😀".into(),
        "a;b".into(),
        "a;serverId=x".into(),
        "a:b@c".into(),
        "'\"".into(),
        "a\\b".into(),
        "a/b".into(),
        "?".into(),
        "??x=1".into(),
        "#".into(),
        "&".into(),
        "=".into(),
        "&&".into(),
        "username".into(),
        "&username=Other".into(),
        "Other&username=Victim".into(),
        "x&serverId=".into(),
        "x&serverId".into(),
        "Victim HTTP/1.1".into(),
        " lead".into(),
        "trail ".into(),
        " ".into(),
        "+".into(),
        "++".into(),
        "\u{7f}".into(),
        "\u{85}".into(),
        "\u{2028}".into(),
        "\u{feff}".into(),
        "Notch".into(),
        "UPPER_lower_16ch".into(),
        "A".repeat(5000),
        "&".repeat(5000),
        "é".repeat(5000),
        "a&".repeat(2500),
        format!("{}&serverId={other}", "V".repeat(4000)),
    ];
    v.push(rng.string_from(RICH, 5000));
    v
}

fn gen_name(rng: &mut Rng) -> (String, &'static str) {
    match rng.below(100) {
        0..=21 => {
            let len = rng.range(1, 24) as usize;
            (rng.string_from(RICH, len), "rich")
        }
        22..=39 => {
            let base = rng.ascii_name(1, 15);
            let sp = rng.pick(SPECIAL).to_string();
            (insert_at(&base, rng.below(3), &sp), "one-special")
        }
        40..=49 => {
            let mut s = String::new();
            for _ in 0..rng.range(1, 8) {
                match rng.below(4) {
                    0 => s.push_str(&rng.ascii_name(1, 4)),
                    1 => {
                        let known = ["%26", "%3D", "%23", "%3F", "%25", "%2B", "%20", "%2F", "%00", "%0A", "%0D", "%C3%A9", "%u0026", "%5C"];
                        let k: &str = *rng.pick(&known[..]);
                        s.push_str(k);
                    }
                    2 => {
                        s.push('%');
                        s.push(hexdigit(rng));
                        s.push(hexdigit(rng));
                    }
                    _ => {
                        s.push('%');
                        if rng.bool() {
                            s.push(hexdigit(rng));
                        }
                        if rng.bool() {
                            s.push(*rng.pick(&['g', 'Z', '%', '&', ' ', '+']));
                        }
                    }
                }
            }
            (s, "pre-encoded")
        }
        50..=64 => {
            let victim = rng.ascii_name(3, 16);
            let h = random_hash(rng);
            let junk = rng.ascii_name(0, 6);
            let s = match rng.below(12) {
                0 => format!("{victim}&serverId={h}"),
                1 => format!("{victim}#{junk}"),
                2 => format!("{victim}&serverId={h}#"),
                3 => format!("{victim}?serverId={h}"),
                4 => format!("{victim}%26serverId%3D{h}"),
                5 => format!("&serverId={h}&username={victim}"),
                6 => format!("{victim};serverId={h}"),
                7 => format!("{victim}&{junk}"),
                8 => format!("{victim}&{junk}={junk}"),
                9 => format!("{victim}&username={junk}"),
                10 => format!("{victim}\r\n&serverId={h}"),
                _ => format!("{victim} &serverId={h}#{junk}"),
            };
            (s, "attack")
        }
        65..=76 => {
            let mut s = String::new();
            for _ in 0..rng.range(1, 16) {
                match rng.below(6) {
                    0 => s.push(*rng.pick(SPECIAL)),
                    1 => s.push_str(&rng.ascii_name(1, 2)),
                    _ => s.push(non_ascii_char(rng)),
                }
            }
            (s, "non-ascii")
        }
        77..=86 => {
            let mut s = String::new();
            for _ in 0..rng.range(1, 12) {
                match rng.below(3) {
                    0 => s.push_str(&rng.ascii_name(1, 3)),
                    _ => s.push(*rng.pick(CONTROL)),
                }
            }
            (s, "control")
        }
        87..=90 => {
            let len = rng.range(200, 5000) as usize;
            let s = match rng.below(4) {
                0 => rng.string_from(RICH, len),
                1 => rng.string_from(SPECIAL, len),
                2 => {
                    let tail = format!("&serverId={}", random_hash(rng));
                    let mut s = rng.ascii_name(len, len);
                    s.push_str(&tail);
                    s
                }
                _ => (0..len).map(|_| non_ascii_char(rng)).collect(),
            };
            (s, "long")
        }
        _ => (rng.ascii_name(1, 16), "plain"),
    }
}

fn b64ish(rng: &mut Rng, min: usize, max: usize) -> String {
    const A: &[u8] = b"ABCDEFGHIJKLMNOPQRSTUVWXYZabcdefghijklmnopqrstuvwxyz0123456789+/=";
    let len = rng.range(min as i64, max as i64) as usize;
    (0..len).map(|_| *rng.pick(A) as char).collect()
}

fn gen_profile(rng: &mut Rng, claimed: &str) -> (ExpProfile, Vec<u8>) {
    let id = hex(&rng.bytes(16));
    let name = match rng.below(5) {
        0 => claimed.chars().take(64).collect::<String>(),
        // the account's real spelling differs from what the client typed in the case of letters
        // only: the service's spelling is the verdict
        4 => claimed
            .chars()
            .take(64)
            .enumerate()
            .map(|(i, c)| if i % 2 == 0 { if c.is_ascii_lowercase() { c.to_ascii_uppercase() } else { c.to_ascii_lowercase() } } else { c })
            .collect::<String>(),
        1 => {
            let len = rng.range(1, 12) as usize;
            rng.string_from(RICH, len)
        }
        _ => rng.ascii_name(3, 16),
    };
    let mut properties = vec![("textures".to_string(), b64ish(rng, 0, 400), Some(b64ish(rng, 1, 684)))];
    if rng.chance(1, 4) {
        properties.push((rng.ascii_name(1, 10), b64ish(rng, 0, 40), Some(b64ish(rng, 1, 40))));
    }
    let mut obj = json!({
        "id": id,
        "name": name,
        "properties": properties.iter().map(|(n, v, s)| json!({"name": n, "value": v, "signature": s})).collect::<Vec<_>>(),
    });
    if rng.chance(1, 3) {
        obj["profileActions"] = json!([]);
    }
    let body = serde_json::to_vec(&obj).unwrap_or_default();
    (ExpProfile { id, name, properties }, body)
}

fn gen_plan(rng: &mut Rng, claimed: &str) -> Plan {
    match rng.below(100) {
        0..=44 => {
            let (expect, body) = gen_profile(rng, claimed);
            Plan { kind: "profile".into(), status: 200, body, drop: false, expect: Some(expect) }
        }
        45..=59 => Plan { kind: "no-content".into(), status: 204, body: vec![], drop: false, expect: None },
        60..=76 => {
            let status = *rng.pick(&[403u16, 403, 500, 404, 429, 401, 503, 400]);
            let body = match rng.below(3) {
                // an error status wins even over a well-formed profile in the body
                0 => gen_profile(rng, claimed).1,
                1 => br#"{"error":"ForbiddenOperationException","path":"/session/minecraft/hasJoined"}"#.to_vec(),
                _ => vec![],
            };
            Plan { kind: "http-error".into(), status, body, drop: false, expect: None }
        }
        77..=95 => {
            let body: Vec<u8> = match rng.below(11) {
                0 => vec![],
                1 => b"not json".to_vec(),
                2 => b"<html><body>502 Bad Gateway</body></html>".to_vec(),
                3 => {
                    let b = gen_profile(rng, claimed).1;
                    let cut = 1 + rng.usize_below(b.len() - 1);
                    b[..cut].to_vec()
                }
                4 => b"{}".to_vec(),
                5 => b"[]".to_vec(),
                6 => b"null".to_vec(),
                7 => br#"{"id":"zz","name":1}"#.to_vec(),
                8 => {
                    let n = rng.range(1, 200) as usize;
                    let mut b = rng.bytes(n);
                    b[0] = 0xff; // never valid UTF-8, never JSON
                    b
                }
                9 => br#"{"name":"Victim","properties":[]}"#.to_vec(),
                _ => format!(r#"{{"id":"{}"}}"#, hex(&rng.bytes(16))).into_bytes(),
            };
            Plan { kind: "garbage".into(), status: 200, body, drop: false, expect: None }
        }
        _ => Plan { kind: "drop".into(), status: 0, body: vec![], drop: true, expect: None },
    }
}

/// C11 mode (the hash as it is used towards the session service): only the serverId clause is
/// judged, and server ids are long / non-ASCII far more often.
static HASH_ONLY: std::sync::atomic::AtomicBool = std::sync::atomic::AtomicBool::new(false);

fn gen_server_id(rng: &mut Rng) -> String {
    if rng.chance(1, 3) {
        // a handful of ids that come back again and again (each gets one long-lived adapter)
        return rng.pick(&["lobby", "eu-west-1.play", "Ünïcödé-ïd", "a much longer server id that does not fit into twenty characters"]).to_string();
    }
    if rng.chance(1, 6) {
        // text that a typed configuration layer could mistake for a number or a flag
        return rng.pick(&["007", "0042", "1e3", "1.0", "1.50", "+5", "-0", "true", "True", "off", "null", "~", "0x10", " 12", "12 ", "1_000", ".5", "NaN", "9223372036854775808", "00", "no", "[]", "{}", "a: b", "#id", "'q'", "\"q\""]).to_string();
    }
    if HASH_ONLY.load(std::sync::atomic::Ordering::Relaxed) {
        return match rng.below(6) {
            0 => String::new(),
            1 => rng.ascii_name(1, 20),
            2 => rng.ascii_name(21, 64),
            3 => rng.ascii_name(100, 300),
            4 => {
                let len = rng.range(1, 40) as usize;
                (0..len).map(|_| non_ascii_char(rng)).collect()
            }
            _ => {
                let len = rng.range(1, 60) as usize;
                rng.string_from(RICH, len)
            }
        };
    }
    match rng.below(20) {
        0..=2 => String::new(),
        3..=4 => {
            let len = rng.range(1, 20) as usize;
            rng.string_from(RICH, len)
        }
        5 => rng.ascii_name(100, 300),
        _ => rng.ascii_name(1, 20),
    }
}

fn gen_case(seed: u64, idx: u64, fixed: Option<&str>) -> Case {
    let mut rng = Rng::stream(seed, idx);
    let (name, category) = match fixed {
        Some(n) => (n.to_string(), "fixed"),
        None => gen_name(&mut rng),
    };
    let server_id = gen_server_id(&mut rng);
    let secret = match rng.below(10) {
        0 => {
            let n = rng.range(0, 40) as usize;
            rng.bytes(n)
        }
        _ => rng.bytes(16),
    };
    let public = match rng.below(10) {
        0 => {
            let n = rng.range(0, 600) as usize;
            rng.bytes(n)
        }
        1 => rng.bytes(294),
        _ => rng.bytes(162),
    };
    let mut u = [0u8; 16];
    rng.fill(&mut u);
    let plan = gen_plan(&mut rng, &name);
    Case {
        idx,
        category: category.into(),
        name,
        uuid: Uuid::from_bytes(u),
        server_id,
        secret,
        public,
        plan,
    }
}

/// What makes a case distinct: the set of character classes in the name, where the first
/// non-trivial character sits, the response kind and the sign of the hash. `None` for a trivial
/// case (name of `[A-Za-z0-9_]` only).
fn class_key(case: &Case, hash: &str) -> Option<String> {
    let mut classes: BTreeSet<&'static str> = BTreeSet::new();
    let n = case.name.chars().count();
    let mut first_special: Option<usize> = None;
    for (i, c) in case.name.chars().enumerate() {
        let cl = match c {
            'a'..='z' | 'A'..='Z' | '0'..='9' | '_' => continue,
            '&' => "amp",
            '=' => "eq",
            '#' => "hash",
            '?' => "qmark",
            '%' => "pct",
            '+' => "plus",
            '/' => "slash",
            '\\' => "bslash",
            ' ' => "space",
            ';' => "semi",
            ':' => "colon",
            '@' => "at",
            '\'' | '"' => "quote",
            '\t' | '\r' | '\n' => "tabcrlf",
            '\0' => "nul",
            c if (c as u32) < 0x20 || c as u32 == 0x7f => "ctrl",
            c if (c as u32) < 0x80 => "punct",
            c if (c as u32) < 0x800 => "utf8-2",
            c if (c as u32) < 0x10000 => "utf8-3",
            _ => "utf8-4",
        };
        classes.insert(cl);
        first_special.get_or_insert(i);
    }
    if n == 0 {
        classes.insert("empty");
    }
    if n > 100 {
        classes.insert("long");
    }
    if classes.is_empty() {
        return None;
    }
    let pos = match first_special {
        Some(0) => "start",
        Some(i) if i + 1 == n => "end",
        Some(_) => "middle",
        None => "-",
    };
    Some(format!(
        "{}|{pos}|{}|{}",
        classes.into_iter().collect::<Vec<_>>().join("+"),
        case.plan.kind,
        if hash.starts_with('-') { "neg" } else { "pos" }
    ))
}

// ------------------------------------------------------------------------------------------------
// mock session server
// ------------------------------------------------------------------------------------------------

struct Mock {
    plan: Mutex<Plan>,
    seen: Mutex<Vec<Vec<u8>>>,
    connections: AtomicU64,
    oversize: AtomicU64,
}

fn find_from(hay: &[u8], needle: &[u8], from: usize) -> Option<usize> {
    if hay.len() < needle.len() {
        return None;
    }
    (from..=hay.len() - needle.len()).find(|&i| &hay[i..i + needle.len()] == needle)
}

fn reason(status: u16) -> &'static str {
    match status {
        200 => "OK",
        204 => "No Content",
        400 => "Bad Request",
        401 => "Unauthorized",
        403 => "Forbidden",
        404 => "Not Found",
        429 => "Too Many Requests",
        500 => "Internal Server Error",
        503 => "Service Unavailable",
        _ => "Status",
    }
}

async fn serve_conn(mut s: TcpStream, mock: Arc<Mock>) {
    let _ = s.set_nodelay(true);
    let mut buf: Vec<u8> = Vec::with_capacity(8192);
    let mut chunk = vec![0u8; 65536];
    loop {
        // head
        let mut searched = 0usize;
        let end = loop {
            if let Some(p) = find_from(&buf, b"\r\n\r\n", searched.saturating_sub(3)) {
                break p + 4;
            }
            searched = buf.len();
            if buf.len() > MAX_HEAD {
                mock.oversize.fetch_add(1, Ordering::Relaxed);
                let _ = s.write_all(b"HTTP/1.1 431 Request Header Fields Too Large\r\nContent-Length: 0\r\nConnection: close\r\n\r\n").await;
                return;
            }
            match tokio::time::timeout(Duration::from_secs(120), s.read(&mut chunk)).await {
                Ok(Ok(0)) | Ok(Err(_)) | Err(_) => return,
                Ok(Ok(n)) => buf.extend_from_slice(&chunk[..n]),
            }
        };
        let head = &buf[..end];
        let line_end = head.iter().position(|&b| b == b'\n').unwrap_or(end);
        let mut line = &head[..line_end];
        if line.last() == Some(&b'\r') {
            line = &line[..line.len() - 1];
        }
        let line = line.to_vec();
        // headers: only Content-Length matters (a GET has no body, but stay in sync if it had)
        let mut body_len = 0usize;
        for h in head[line_end.min(end)..].split(|&b| b == b'\n') {
            let h = String::from_utf8_lossy(h);
            if let Some((k, v)) = h.split_once(':') {
                if k.trim().eq_ignore_ascii_case("content-length") {
                    body_len = v.trim().parse().unwrap_or(0);
                }
            }
        }
        while buf.len() < end + body_len {
            match tokio::time::timeout(Duration::from_secs(30), s.read(&mut chunk)).await {
                Ok(Ok(0)) | Ok(Err(_)) | Err(_) => return,
                Ok(Ok(n)) => buf.extend_from_slice(&chunk[..n]),
            }
        }
        buf.drain(..end + body_len);

        let plan = mock.plan.lock().unwrap_or_else(|e| e.into_inner()).clone();
        mock.seen.lock().unwrap_or_else(|e| e.into_inner()).push(line);
        if plan.drop {
            return;
        }
        let mut resp = Vec::with_capacity(plan.body.len() + 128);
        if plan.status == 204 {
            resp.extend_from_slice(b"HTTP/1.1 204 No Content\r\nConnection: keep-alive\r\n\r\n");
        } else {
            resp.extend_from_slice(
                format!(
                    "HTTP/1.1 {} {}\r\nContent-Type: application/json\r\nContent-Length: {}\r\nConnection: keep-alive\r\n\r\n",
                    plan.status,
                    reason(plan.status),
                    plan.body.len()
                )
                .as_bytes(),
            );
            resp.extend_from_slice(&plan.body);
        }
        if s.write_all(&resp).await.is_err() {
            return;
        }
    }
}

async fn serve(listener: TcpListener, mock: Arc<Mock>) {
    loop {
        match listener.accept().await {
            Ok((s, _)) => {
                mock.connections.fetch_add(1, Ordering::Relaxed);
                tokio::spawn(serve_conn(s, mock.clone()));
            }
            Err(_) => tokio::time::sleep(Duration::from_millis(5)).await,
        }
    }
}

// ------------------------------------------------------------------------------------------------
// oracle
// ------------------------------------------------------------------------------------------------

fn hexval(b: u8) -> Option<u8> {
    match b {
        b'0'..=b'9' => Some(b - b'0'),
        b'a'..=b'f' => Some(b - b'a' + 10),
        b'A'..=b'F' => Some(b - b'A' + 10),
        _ => None,
    }
}

/// Percent-decoding; `plus_is_space` selects form decoding. A `%` not followed by two hex digits
/// is kept literally (WHATWG "percent-decode"); the second value tells whether that happened.
fn pct_decode(raw: &[u8], plus_is_space: bool) -> (Vec<u8>, bool) {
    let mut out = Vec::with_capacity(raw.len());
    let mut lenient = false;
    let mut i = 0;
    while i < raw.len() {
        let b = raw[i];
        if b == b'%' {
            if raw.len() >= i + 3 {
                if let (Some(h), Some(l)) = (hexval(raw[i + 1]), hexval(raw[i + 2])) {
                    out.push(h * 16 + l);
                    i += 3;
                    continue;
                }
            }
            lenient = true;
            out.push(b'%');
            i += 1;
        } else if b == b'+' && plus_is_space {
            out.push(b' ');
            i += 1;
        } else {
            out.push(b);
            i += 1;
        }
    }
    (out, lenient)
}

fn decodes_to(raw: &[u8], want: &[u8]) -> (bool, bool, bool) {
    let (p, lp) = pct_decode(raw, false);
    let (f, lf) = pct_decode(raw, true);
    let plain = p == want;
    let form = f == want;
    (plain, form, (plain && lp) || (!plain && form && lf))
}

fn show(bytes: &[u8], max: usize) -> String {
    let s = String::from_utf8_lossy(bytes);
    let mut out: String = s.chars().take(max).flat_map(|c| c.escape_debug()).collect();
    if s.chars().count() > max {
        out.push_str(&format!("…(+{} chars)", s.chars().count() - max));
    }
    out
}

#[derive(Default, Debug)]
struct LineInfo {
    username_plain: bool,
    username_form: bool,
    username_lenient: bool,
    ok: bool,
}

/// Judges one raw request line. Returns (signature, what) per refuted clause.
fn judge_line(line: &[u8], name: &str, hash: &str) -> (Vec<(String, String)>, LineInfo) {
    let mut f: Vec<(String, String)> = vec![];
    let mut info = LineInfo::default();
    let nm = show(name.as_bytes(), 60);
    let shown = show(line, 200);
    if line.iter().any(|&b| b < 0x20 || b == 0x7f) {
        f.push((
            "request/raw-control-character".into(),
            format!("claimed name \"{nm}\": the request line carries an unescaped control character: {shown}"),
        ));
    }
    let first = line.iter().position(|&b| b == b' ');
    let last = line.iter().rposition(|&b| b == b' ');
    let (method, target, version) = match (first, last) {
        (Some(a), Some(b)) if a < b => (&line[..a], &line[a + 1..b], &line[b + 1..]),
        _ => {
            f.push(("request/malformed-line".into(), format!("claimed name \"{nm}\": request line is not `METHOD target VERSION`: {shown}")));
            return (f, info);
        }
    };
    if !version.starts_with(b"HTTP/1.") {
        f.push(("request/malformed-line".into(), format!("claimed name \"{nm}\": request line does not end in an HTTP version: {shown}")));
    }
    if target.contains(&b' ') {
        f.push(("request/raw-space".into(), format!("claimed name \"{nm}\": the request target carries an unescaped space: {shown}")));
    }
    if method != b"GET" {
        f.push(("request/method".into(), format!("claimed name \"{nm}\": method is not GET: {shown}")));
    }
    // absolute-form (only via a proxy) is tolerated: strip scheme and authority
    let mut target = target;
    for scheme in [&b"http://"[..], &b"https://"[..]] {
        if target.len() >= scheme.len() && target[..scheme.len()].eq_ignore_ascii_case(scheme) {
            let rest = &target[scheme.len()..];
            let slash = rest.iter().position(|&b| b == b'/' || b == b'?' || b == b'#').unwrap_or(rest.len());
            target = &rest[slash..];
        }
    }
    if let Some(p) = target.iter().position(|&b| b == b'#') {
        f.push(("request/fragment-on-wire".into(), format!("claimed name \"{nm}\": a raw `#` reached the wire: {shown}")));
        target = &target[..p];
    }
    let (path, query): (&[u8], Option<&[u8]>) = match target.iter().position(|&b| b == b'?') {
        Some(p) => (&target[..p], Some(&target[p + 1..])),
        None => (target, None),
    };
    if path != PATH.as_bytes() {
        f.push((
            "path/changed".into(),
            format!("claimed name \"{nm}\": request path is `{}` instead of `{PATH}`", show(path, 120)),
        ));
    }
    let mut usernames: Vec<&[u8]> = vec![];
    let mut server_ids: Vec<&[u8]> = vec![];
    let mut extras: Vec<&[u8]> = vec![];
    for seg in query.unwrap_or(b"").split(|&b| b == b'&') {
        if seg.is_empty() {
            continue; // not a parameter (WHATWG form parsing skips empty sequences)
        }
        let (k, v): (&[u8], &[u8]) = match seg.iter().position(|&b| b == b'=') {
            Some(p) => (&seg[..p], &seg[p + 1..]),
            None => (seg, b""),
        };
        let (kp, _) = pct_decode(k, false);
        let (kf, _) = pct_decode(k, true);
        if kp == b"username" || kf == b"username" {
            usernames.push(v);
        } else if kp == b"serverId" || kf == b"serverId" {
            server_ids.push(v);
        } else {
            extras.push(seg);
        }
    }
    if let Some(e) = extras.first() {
        f.push((
            "query/extra-parameter".into(),
            format!("claimed name \"{nm}\" added {} parameter(s) to the request, e.g. `{}`: {shown}", extras.len(), show(e, 80)),
        ));
    }
    match usernames.len() {
        0 => f.push(("query/username-missing".into(), format!("claimed name \"{nm}\": the request carries no username parameter: {shown}"))),
        1 => {}
        n => f.push(("query/username-duplicated".into(), format!("claimed name \"{nm}\": the request carries {n} username parameters: {shown}"))),
    }
    if let Some(v) = usernames.first() {
        let any = usernames.iter().map(|v| decodes_to(v, name.as_bytes())).find(|d| d.0 || d.1);
        match any {
            Some((p, fo, le)) if usernames.len() == 1 => {
                info.username_plain = p;
                info.username_form = fo;
                info.username_lenient = le;
            }
            Some(_) => {}
            None => {
                let (dec, _) = pct_decode(v, false);
                let shape = if !dec.is_empty() && name.as_bytes().starts_with(&dec) {
                    "the name was cut short"
                } else {
                    "a different user"
                };
                f.push((
                    "query/username-mismatch".into(),
                    format!(
                        "claimed name \"{nm}\": the username parameter decodes to \"{}\" ({shape}): {shown}",
                        show(&dec, 60)
                    ),
                ));
            }
        }
    }
    match server_ids.len() {
        0 => f.push(("query/serverId-missing".into(), format!("claimed name \"{nm}\": the request carries no serverId parameter (expected {hash}): {shown}"))),
        1 => {}
        n => f.push(("query/serverId-duplicated".into(), format!("claimed name \"{nm}\": the request carries {n} serverId parameters (expected only {hash}): {shown}"))),
    }
    if server_ids.len() == 1 {
        let (p, fo, _) = decodes_to(server_ids[0], hash.as_bytes());
        if !(p || fo) {
            f.push((
                "query/serverId-mismatch".into(),
                format!("claimed name \"{nm}\": serverId is `{}` instead of this connection's hash {hash}: {shown}", show(server_ids[0], 80)),
            ));
        }
    } else if server_ids.len() > 1 && !server_ids.iter().any(|v| { let d = decodes_to(v, hash.as_bytes()); d.0 || d.1 }) {
        f.push((
            "query/serverId-mismatch".into(),
            format!("claimed name \"{nm}\": none of the serverId parameters equals this connection's hash {hash}: {shown}"),
        ));
    }
    info.ok = f.is_empty();
    (f, info)
}

/// The oracle checks itself on hand-written lines before it is trusted.
fn oracle_self_test() -> Result<(), String> {
    let h = "-7c9d5b0044c130109a5d7b5fb5c317c02b4e28c1";
    let sigs = |line: &str, name: &str| -> Vec<String> {
        let mut v: Vec<String> = judge_line(line.as_bytes(), name, h).0.into_iter().map(|x| x.0).collect();
        v.sort();
        v.dedup();
        v
    };
    let cases: Vec<(String, &str, Vec<&str>)> = vec![
        (format!("GET {PATH}?username=a%20b%26c&serverId={h} HTTP/1.1"), "a b&c", vec![]),
        (format!("GET {PATH}?username=a+b%26c&serverId={h} HTTP/1.1"), "a b&c", vec![]),
        (format!("GET {PATH}?serverId={h}&username=a%2Bb HTTP/1.1"), "a+b", vec![]),
        (format!("GET {PATH}?username=a+b&serverId={h} HTTP/1.1"), "a+b", vec![]),
        (format!("GET {PATH}?username=a+b+c&serverId={h} HTTP/1.1"), "a+b c", vec!["query/username-mismatch"]),
        (format!("GET {PATH}?username=&serverId={h} HTTP/1.1"), "", vec![]),
        (format!("GET {PATH}?username=%C3%A9%00&serverId=%2D{} HTTP/1.1", &h[1..]), "é\0", vec![]),
        (format!("GET {PATH}?username=a&b=c&serverId={h} HTTP/1.1"), "a&b=c", vec!["query/extra-parameter", "query/username-mismatch"]),
        (format!("GET {PATH}?username=V&serverId=1&serverId={h} HTTP/1.1"), "V&serverId=1", vec!["query/serverId-duplicated", "query/username-mismatch"]),
        (format!("GET {PATH}?username=V HTTP/1.1"), "V#", vec!["query/serverId-missing", "query/username-mismatch"]),
        (format!("GET {PATH}?username=V#&serverId={h} HTTP/1.1"), "V#", vec!["query/serverId-missing", "query/username-mismatch", "request/fragment-on-wire"]),
        (format!("GET {PATH}?username={h}&serverId=V HTTP/1.1"), "V", vec!["query/serverId-mismatch", "query/username-mismatch"]),
        (format!("GET {PATH}/V?serverId={h} HTTP/1.1"), "V", vec!["path/changed", "query/username-missing"]),
        (format!("GET {PATH}?username=a b&serverId={h} HTTP/1.1"), "a b", vec!["request/raw-space"]),
        (format!("GET {PATH}?username=a\tb&serverId={h} HTTP/1.1"), "a\tb", vec!["request/raw-control-character"]),
        (format!("POST {PATH}?username=a&serverId={h} HTTP/1.1"), "a", vec!["request/method"]),
        (format!("GET {PATH}?username=%2526&serverId={h} HTTP/1.1"), "%26", vec![]),
        (format!("GET {PATH}?username=%26&serverId={h} HTTP/1.1"), "%26", vec!["query/username-mismatch"]),
        (format!("GET {PATH}?username=Vic&serverId={h} HTTP/1.1"), "Victim", vec!["query/username-mismatch"]),
        (format!("GET {PATH}?username=a&username=b&serverId={h} HTTP/1.1"), "a", vec!["query/username-duplicated"]),
    ];
    for (line, name, want) in cases {
        let got = sigs(&line, name);
        if got != want {
            return Err(format!("oracle self-test: line {line:?} for name {name:?} judged {got:?}, expected {want:?}"));
        }
    }
    Ok(())
}

// ------------------------------------------------------------------------------------------------
// running a case against the real adapter
// ------------------------------------------------------------------------------------------------

/// The authentication part of the configuration as `Config::read()` delivers it when the
/// operator's server id is written in the YAML config file (key `server_id`, as in
/// config/example.yaml) or given as PASSAGE_ADAPTERS_AUTHENTICATION_MOJANG_SERVERID.
fn config_layers(server_id: &str, through_env: bool) -> Result<passage::config::AuthenticationAdapter, String> {
    let dir = std::path::PathBuf::from(std::env::var("VERIF_ROOT").unwrap_or_else(|_| "/verif".into())).join(".run").join(format!("mojang-cfg-{}", std::process::id()));
    std::fs::create_dir_all(&dir).map_err(|e| e.to_string())?;
    // a YAML double-quoted scalar understands every JSON string escape
    let quoted = serde_json::to_string(server_id).map_err(|e| e.to_string())?;
    let yaml = if through_env {
        "address: \"127.0.0.1:25565\"\nadapters:\n  authentication:\n    mojang: {}\n".to_string()
    } else {
        format!("address: \"127.0.0.1:25565\"\nadapters:\n  authentication:\n    mojang:\n      server_id: {quoted}\n")
    };
    let cfg_path = dir.join("config.yaml");
    std::fs::write(&cfg_path, yaml).map_err(|e| e.to_string())?;
    // SAFETY: cases run one at a time; nothing else reads these variables meanwhile
    unsafe {
        std::env::set_var("CONFIG_FILE", &cfg_path);
        std::env::set_var("AUTH_SECRET_FILE", dir.join("no-such-secret-file"));
        if through_env {
            std::env::set_var("PASSAGE_ADAPTERS_AUTHENTICATION_MOJANG_SERVERID", server_id);
        }
    }
    let res = passage::config::Config::read().map_err(|e| format!("Config::read failed: {e}"));
    unsafe {
        std::env::remove_var("CONFIG_FILE");
        std::env::remove_var("AUTH_SECRET_FILE");
        std::env::remove_var("PASSAGE_ADAPTERS_AUTHENTICATION_MOJANG_SERVERID");
    }
    let _ = std::fs::remove_dir_all(&dir);
    res.map(|c| c.adapters.authentication)
}

static LONG_LIVED: std::sync::LazyLock<Mutex<std::collections::HashMap<String, Arc<MojangAdapter>>>> = std::sync::LazyLock::new(|| Mutex::new(std::collections::HashMap::new()));

enum Res {
    Ok(Profile),
    Err(String),
    Timeout,
}

/// C01 mode: the adapters live as long as the application's do (one instance behind an Arc for all
/// connections), so whatever an instance remembers between calls is part of what is observed.
struct Shared {
    direct: MojangAdapter,
    configured: Option<passage::adapter::authentication::DynAuthenticationAdapter>,
}

async fn run_case(mock: &Mock, case: &Case, shared: Option<&Shared>) -> (Res, Vec<Vec<u8>>) {
    *mock.plan.lock().unwrap_or_else(|e| e.into_inner()) = case.plan.clone();
    mock.seen.lock().unwrap_or_else(|e| e.into_inner()).clear();
    let client: SocketAddr = SocketAddr::from(([127, 0, 0, 1], 54321));
    // every other case goes through the adapter as the application builds it from its
    // configuration (passage::adapter::authentication), the rest calls MojangAdapter directly
    let via_config = case.idx % 2 == 1;
    let outcome = if let Some(sh) = shared {
        match (&sh.configured, via_config) {
            (Some(adapter), true) => {
                let fut = adapter.authenticate(&client, ("play.example.org", 25565), 767, (case.name.as_str(), &case.uuid), &case.secret, &case.public);
                tokio::time::timeout(Duration::from_secs(20), fut).await
            }
            _ => {
                let fut = sh.direct.authenticate(&client, ("play.example.org", 25565), 767, (case.name.as_str(), &case.uuid), &case.secret, &case.public);
                tokio::time::timeout(Duration::from_secs(20), fut).await
            }
        }
    } else {
        use passage::adapter::authentication::DynAuthenticationAdapter;
        use passage::config::{AuthenticationAdapter as AuthCfg, MojangAuthentication};
        // how the operator's server id reaches the adapter: not at all through the configuration
        // (0, 2, 4), as a Config value (1), through a YAML config file (3) or through the
        // environment (5), the last two read by Config::read() as the binary does
        let auth_cfg: Option<Result<AuthCfg, String>> = match case.idx % 6 {
            1 => Some(Ok(AuthCfg::Mojang(MojangAuthentication { server_id: case.server_id.clone() }))),
            3 => Some(config_layers(&case.server_id, false)),
            5 => Some(config_layers(&case.server_id, !case.server_id.contains('\0'))),
            _ => None,
        };
        match auth_cfg {
            Some(Ok(cfg)) => match DynAuthenticationAdapter::from_config(cfg).await {
                Ok(adapter) => {
                    let fut = adapter.authenticate(&client, ("play.example.org", 25565), 767, (case.name.as_str(), &case.uuid), &case.secret, &case.public);
                    tokio::time::timeout(Duration::from_secs(20), fut).await
                }
                Err(e) => Ok(Err(passage_adapters::Error::FailedInitialization { adapter_type: "mojang", cause: e.to_string().into() })),
            },
            Some(Err(e)) => Ok(Err(passage_adapters::Error::FailedInitialization { adapter_type: "mojang (configuration)", cause: e.into() })),
            None => {
                // one adapter per server id, kept for the whole run: an adapter lives as long as the
                // application and serves every login (idx % 6 == 4 still gets a fresh one)
                let adapter = if case.idx % 6 == 4 {
                    Arc::new(MojangAdapter::default().with_server_id(case.server_id.clone()))
                } else {
                    let mut cache = LONG_LIVED.lock().unwrap_or_else(|e| e.into_inner());
                    cache.entry(case.server_id.clone()).or_insert_with(|| Arc::new(MojangAdapter::default().with_server_id(case.server_id.clone()))).clone()
                };
                let fut = adapter.authenticate(&client, ("play.example.org", 25565), 767, (case.name.as_str(), &case.uuid), &case.secret, &case.public);
                tokio::time::timeout(Duration::from_secs(20), fut).await
            }
        }
    };
    let res = match outcome {
        Ok(Ok(p)) => Res::Ok(p),
        Ok(Err(e)) => Res::Err(format!("{e:?}").chars().take(300).collect()),
        Err(_) => Res::Timeout,
    };
    let seen = std::mem::take(&mut *mock.seen.lock().unwrap_or_else(|e| e.into_inner()));
    (res, seen)
}

fn profile_json(p: &Profile) -> Value {
    json!({
        "id": p.id.as_simple().to_string(),
        "name": p.name,
        "properties": p.properties.iter().map(|q| json!({"name": q.name, "value": q.value, "signature": q.signature})).collect::<Vec<_>>(),
    })
}

fn main() {
    // Before any other thread exists: bind the mock's port, point hook H1 at it, keep proxies out.
    let std_listener = std::net::TcpListener::bind("127.0.0.1:0").expect("bind loopback");
    let port = std_listener.local_addr().expect("local addr").port();
    // SAFETY: single-threaded at this point.
    unsafe {
        for k in ["HTTP_PROXY", "http_proxy", "HTTPS_PROXY", "https_proxy", "ALL_PROXY", "all_proxy"] {
            std::env::remove_var(k);
        }
        std::env::set_var("NO_PROXY", "*");
        std::env::set_var("PASSAGE_VERIF_SESSION_URL", format!("http://127.0.0.1:{port}"));
    }

    let cli = Cli::parse();
    report::watchdog(&cli.prop, cli.tier.pick(150, 420));
    let mut report = Report::new(
        &cli,
        "exploration",
        "each case = (claimed name, server id, shared secret, encoded key, mock response) run through the real MojangAdapter::authenticate against a loopback mock; names: a fixed list of attack literals plus seeded draws (rich alphabet of & = # ? % + / \\ space ; : @ quotes, control characters, 2-4 byte UTF-8, %XX pre-encoded text, injected `&serverId=<other hash>`, up to 5000 chars); a case is distinct by (set of character classes in the name, position of the first special character, response kind, sign of the hash) and trivial when the name is [A-Za-z0-9_] only",
    );
    report.set_max_samples(8);
    let hash_only = cli.prop == "C11";
    let shared_mode = cli.prop == "C01";
    HASH_ONLY.store(hash_only, std::sync::atomic::Ordering::Relaxed);
    if cli.prop != "C12" && !hash_only && !shared_mode {
        report.inconclusive_fatal(&format!("vp-mojang decides C12 (and the adapter clause of C11), not {}", cli.prop));
        std::process::exit(report.finish());
    }
    if let Err(e) = refcrypto::self_test() {
        report.inconclusive_fatal(&format!("reference crypto self-test failed: {e}"));
        std::process::exit(report.finish());
    }
    if let Err(e) = oracle_self_test() {
        report.inconclusive_fatal(&e);
        std::process::exit(report.finish());
    }
    report.assume("the session server splits the query at `&` and each parameter at its first `=` (RFC 3986 / WHATWG form parsing); `;` is not treated as a separator");
    report.assume("a value is accepted if plain percent-decoding or form decoding (`+` = space) yields the claimed name byte for byte; a `%` not followed by two hex digits decodes to itself");
    report.assume("scenarios run one at a time, so every request the mock records belongs to the scenario in flight");
    report.assume("an Err without any request on the wire (e.g. a URL too long to send) is acceptable: nothing was asked about another user");

    // workload
    let cases: Vec<Case> = if let Some(path) = &cli.replay {
        let parsed = std::fs::read_to_string(path)
            .ok()
            .and_then(|t| serde_json::from_str::<Value>(&t).ok())
            .and_then(|v| {
                let w = v.get("witness").cloned().unwrap_or(v);
                let c = w.get("case").cloned().unwrap_or(w);
                case_from_json(&c)
            });
        match parsed {
            Some(c) => vec![c],
            None => {
                report.inconclusive_fatal(&format!("cannot read a case from replay file {}", path.display()));
                std::process::exit(report.finish());
            }
        }
    } else {
        let mut frng = Rng::stream(cli.seed, u64::MAX);
        let fixed = fixed_names(&mut frng);
        let total = cli.scaled(cli.tier.pick(500, 20_000));
        let mut v: Vec<Case> = Vec::with_capacity(total as usize + fixed.len());
        for (i, n) in fixed.iter().enumerate() {
            v.push(gen_case(cli.seed, i as u64, Some(n)));
        }
        let random = total.saturating_sub(v.len() as u64).max(total / 2);
        for i in 0..random {
            v.push(gen_case(cli.seed, 1_000_000 + i, None));
        }
        if !shared_mode {
            // now and then a player comes back: the same name (and the same server, hence the same
            // long-lived adapter) with another secret and another verdict of the session server
            for i in (60..v.len()).step_by(5) {
                // both calls have to go through the long-lived adapter of that server id
                let long_lived = |c: &Case| c.idx % 6 == 0 || c.idx % 6 == 2;
                if !long_lived(&v[i]) {
                    continue;
                }
                if let Some(j) = (i.saturating_sub(12)..i).rev().find(|j| long_lived(&v[*j]) && v[*j].plan.kind == "profile") {
                    let (name, server_id, category) = (v[j].name.clone(), v[j].server_id.clone(), v[j].category.clone());
                    v[i].name = name;
                    v[i].server_id = server_id;
                    v[i].category = category;
                }
            }
        }
        if shared_mode {
            // C01: long-lived adapter instances, the same few names (and the same server id) over and
            // over with different secrets and different verdicts of the session server
            let mut prng = Rng::stream(cli.seed, u64::MAX - 1);
            let pool: Vec<String> = (0..6).map(|i| if i < 4 { prng.ascii_name(3, 16) } else { gen_name(&mut prng).0 }).collect();
            for (i, c) in v.iter_mut().enumerate() {
                c.server_id = String::new();
                if i % 4 != 3 {
                    c.name = pool[prng.usize_below(pool.len())].clone();
                    c.category = "repeated".into();
                    c.plan = gen_plan(&mut prng, &c.name);
                }
                if i % 8 == 0 && i > 0 {
                    // the very same connection parameters as an earlier, possibly successful call
                    c.secret = Vec::new();
                }
            }
            let fix: Vec<(usize, Vec<u8>, Vec<u8>)> = v.iter().enumerate().filter(|(i, _)| i % 8 == 7).map(|(i, c)| (i + 1, c.secret.clone(), c.public.clone())).collect();
            for (j, secret, public) in fix {
                if let Some(c) = v.get_mut(j) {
                    c.secret = secret;
                    c.public = public;
                }
            }
        }
        v
    };

    let rt = tokio::runtime::Builder::new_multi_thread()
        .worker_threads(4)
        .enable_all()
        .build()
        .expect("tokio runtime");

    let mock = Arc::new(Mock {
        plan: Mutex::new(Plan { kind: "no-content".into(), status: 204, body: vec![], drop: false, expect: None }),
        seen: Mutex::new(vec![]),
        connections: AtomicU64::new(0),
        oversize: AtomicU64::new(0),
    });

    rt.block_on(async {
        std_listener.set_nonblocking(true).expect("nonblocking");
        let listener = TcpListener::from_std(std_listener).expect("tokio listener");
        tokio::spawn(serve(listener, mock.clone()));

        let shared = if shared_mode {
            use passage::adapter::authentication::DynAuthenticationAdapter;
            use passage::config::{AuthenticationAdapter as AuthCfg, MojangAuthentication};
            Some(Shared {
                direct: MojangAdapter::default().with_server_id(String::new()),
                configured: DynAuthenticationAdapter::from_config(AuthCfg::Mojang(MojangAuthentication { server_id: String::new() })).await.ok(),
            })
        } else {
            None
        };
        if shared_mode && shared.as_ref().map(|s| s.configured.is_none()).unwrap_or(false) {
            report.inconclusive("the configured authentication adapter could not be built; only the directly constructed one was driven");
        }
        let mut ok_by_name: std::collections::BTreeMap<String, u64> = Default::default();
        for case in &cases {
            let hash = refcrypto::minecraft_hash_ref(&case.server_id, &case.secret, &case.public);
            let (res, seen) = run_case(&mock, case, shared.as_ref()).await;
            if shared_mode {
                if ok_by_name.get(&case.name).copied().unwrap_or(0) > 0 {
                    report.count(&format!("calls for a name that was vouched for earlier on the same adapter, answered now: {}", case.plan.kind), 1);
                }
                if matches!(res, Res::Ok(_)) {
                    *ok_by_name.entry(case.name.clone()).or_default() += 1;
                }
            }
            let key = class_key(case, &hash);
            report.eval(key.as_deref());
            report.count(&format!("cases with name category {}", case.category), 1);
            report.count(&format!("mock answer: {}", case.plan.kind), 1);
            if !shared_mode {
                report.count(["server id set on the adapter directly", "server id given as a Config value", "server id set on the adapter directly", "server id read from a YAML config file by Config::read", "server id set on the adapter directly", "server id read from the environment by Config::read"][(case.idx % 6) as usize], 1);
            }
            report.count("requests received by the mock", seen.len() as u64);

            let res_json = match &res {
                Res::Ok(p) => json!({"ok": profile_json(p)}),
                Res::Err(e) => json!({"err": e}),
                Res::Timeout => json!("timeout"),
            };
            let witness = |extra: Value| -> Value {
                json!({
                    "case": case_to_json(case),
                    "expected_hash": hash,
                    "expected_path": PATH,
                    "observed_request_lines": seen.iter().map(|l| String::from_utf8_lossy(l).to_string()).collect::<Vec<_>>(),
                    "observed_result": res_json,
                    "detail": extra,
                    "replay": "vp-mojang --prop C12 --replay <this file>",
                })
            };

            if let Res::Timeout = res {
                report.inconclusive_fatal(&format!("authenticate did not return within 20 s for case {} (name \"{}\")", case.idx, show(case.name.as_bytes(), 60)));
                break;
            }

            // (1) every request on the wire
            let mut all_ok = !seen.is_empty();
            for line in &seen {
                let (findings, info) = judge_line(line, &case.name, &hash);
                all_ok &= info.ok;
                if info.ok {
                    report.count("request lines satisfying every clause", 1);
                    match (info.username_plain, info.username_form) {
                        (true, true) => report.count("username accepted under both decodings", 1),
                        (true, false) => report.count("username accepted under plain percent-decoding only", 1),
                        (false, true) => report.count("username accepted under form decoding only", 1),
                        _ => {}
                    }
                    if info.username_lenient {
                        report.count("username accepted with a literal `%` (not followed by two hex digits)", 1);
                    }
                }
                for (sig, what) in findings {
                    report.violation(&sig, &what, witness(json!({"signature": sig, "request_line": String::from_utf8_lossy(line)})));
                }
            }
            if seen.len() > 1 {
                report.count("cases with more than one request (client retry)", 1);
            }

            // (2) the adapter's result
            let nm = show(case.name.as_bytes(), 60);
            match (&res, seen.is_empty()) {
                (Res::Err(_), true) => {
                    report.count("adapter returned Err without sending a request (acceptable)", 1);
                }
                (Res::Ok(_), true) => {
                    report.violation(
                        "result/ok-without-request",
                        &format!("claimed name \"{nm}\": authenticate returned Ok although no has-joined request was made"),
                        witness(json!({})),
                    );
                }
                (Res::Ok(p), false) => match &case.plan.expect {
                    Some(e) => {
                        let got = ExpProfile {
                            id: p.id.as_simple().to_string(),
                            name: p.name.clone(),
                            properties: p.properties.iter().map(|q| (q.name.clone(), q.value.clone(), q.signature.clone())).collect(),
                        };
                        if &got == e {
                            report.count("Ok(profile) equal to the profile served", 1);
                        } else {
                            report.violation(
                                "result/profile-mismatch",
                                &format!("claimed name \"{nm}\": authenticate returned a profile (id {}, name \"{}\") other than the one served (id {}, name \"{}\")", got.id, show(got.name.as_bytes(), 40), e.id, show(e.name.as_bytes(), 40)),
                                witness(json!({})),
                            );
                        }
                    }
                    None => {
                        let sig = format!("result/ok-on-{}", case.plan.kind);
                        report.violation(
                            &sig,
                            &format!("claimed name \"{nm}\": authenticate returned Ok although the session server answered {} ({})", case.plan.kind, case.plan.status),
                            witness(json!({})),
                        );
                    }
                },
                (Res::Err(e), false) => match &case.plan.expect {
                    Some(_) => {
                        report.violation(
                            "result/err-on-valid-profile",
                            &format!("claimed name \"{nm}\": authenticate failed ({}) although the session server answered 200 with a valid profile", show(e.as_bytes(), 120)),
                            witness(json!({})),
                        );
                    }
                    None => report.count("Err on a non-profile answer", 1),
                },
                (Res::Timeout, _) => {}
            }

            if all_ok && key.is_some() && report.wants_sample() && (case.idx % 7 == 0 || case.idx >= 1_000_000) {
                report.sample(json!({
                    "name": show(case.name.as_bytes(), 120),
                    "server_id": case.server_id,
                    "expected_hash": hash,
                    "answer": format!("{} {}", case.plan.kind, case.plan.status),
                    "request_line": seen.first().map(|l| show(l, 300)),
                    "result": match &res { Res::Ok(p) => format!("Ok(id {}, name {:?})", p.id.as_simple(), p.name), Res::Err(e) => format!("Err({})", e.chars().take(80).collect::<String>()), Res::Timeout => "timeout".into() },
                }));
            }
        }
    });

    let requests = report.counter("requests received by the mock");
    let not_sent = report.counter("adapter returned Err without sending a request (acceptable)");
    report.count("connections accepted by the mock", mock.connections.load(Ordering::Relaxed));
    report.count("requests with a head over 1 MiB (answered 431)", mock.oversize.load(Ordering::Relaxed));
    if requests == 0 {
        report.inconclusive_fatal("no request reached the mock (is passage-adapters-http built with feature verif-hooks and PASSAGE_VERIF_SESSION_URL honoured?)");
    } else if cli.replay.is_none() && not_sent * 5 > report.evaluations() {
        report.inconclusive(&format!("{not_sent} of {} cases were refused before a request was sent; the verdict rests on the remaining ones", report.evaluations()));
    }
    if hash_only {
        // C11: only "the hash placed in the request equals Minecraft's hash for this connection"
        report.retain_violations(|sig| sig.starts_with("query/serverId"));
    }
    std::process::exit(report.finish());
}
