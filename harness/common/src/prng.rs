//! Deterministic PRNG (splitmix64 seeding, xoshiro256** stream). Every generated scenario is fully
//! materialised from this generator before it runs, so `VERIF_SEED` + scenario index replays it.

#[derive(Clone, Debug)]
pub struct Rng {
    s: [u64; 4],
}

fn splitmix64(x: &mut u64) -> u64 {
    *x = x.wrapping_add(0x9e37_79b9_7f4a_7c15);
    let mut z = *x;
    z = (z ^ (z >> 30)).wrapping_mul(0xbf58_476d_1ce4_e5b9);
    z = (z ^ (z >> 27)).wrapping_mul(0x94d0_49bb_1331_11eb);
    z ^ (z >> 31)
}

impl Rng {
    pub fn new(seed: u64) -> Self {
        let mut x = seed;
        let s = [
            splitmix64(&mut x),
            splitmix64(&mut x),
            splitmix64(&mut x),
            splitmix64(&mut x),
        ];
        Self { s }
    }

    /// An independent stream for (seed, stream index), e.g. one per scenario or per worker.
    pub fn stream(seed: u64, index: u64) -> Self {
        Self::new(seed ^ index.wrapping_mul(0xd6e8_feb8_6659_fd93).rotate_left(17) ^ 0x5851_f42d_4c95_7f2d)
    }

    pub fn u64(&mut self) -> u64 {
        let result = self.s[1].wrapping_mul(5).rotate_left(7).wrapping_mul(9);
        let t = self.s[1] << 17;
        self.s[2] ^= self.s[0];
        self.s[3] ^= self.s[1];
        self.s[1] ^= self.s[2];
        self.s[0] ^= self.s[3];
        self.s[2] ^= t;
        self.s[3] = self.s[3].rotate_left(45);
        result
    }

    pub fn u32(&mut self) -> u32 {
        (self.u64() >> 32) as u32
    }

    /// Uniform in `0..n` (n > 0).
    pub fn below(&mut self, n: u64) -> u64 {
        assert!(n > 0);
        // multiply-shift; bias is irrelevant for workload generation
        ((self.u64() as u128 * n as u128) >> 64) as u64
    }

    pub fn usize_below(&mut self, n: usize) -> usize {
        self.below(n as u64) as usize
    }

    /// Uniform in `lo..=hi`.
    pub fn range(&mut self, lo: i64, hi: i64) -> i64 {
        assert!(lo <= hi);
        let span = (hi as i128 - lo as i128 + 1) as u128;
        if span > u64::MAX as u128 {
            return self.u64() as i64;
        }
        (lo as i128 + self.below(span as u64) as i128) as i64
    }

    pub fn bool(&mut self) -> bool {
        self.u64() & 1 == 1
    }

    /// True with probability num/den.
    pub fn chance(&mut self, num: u64, den: u64) -> bool {
        self.below(den) < num
    }

    pub fn bytes(&mut self, n: usize) -> Vec<u8> {
        let mut v = Vec::with_capacity(n);
        while v.len() < n {
            let x = self.u64().to_le_bytes();
            let take = (n - v.len()).min(8);
            v.extend_from_slice(&x[..take]);
        }
        v
    }

    /// Random bytes of a random length in `lo..=hi`.
    pub fn bytes_between(&mut self, lo: usize, hi: usize) -> Vec<u8> {
        let n = self.range(lo as i64, hi as i64) as usize;
        self.bytes(n)
    }

    pub fn fill(&mut self, out: &mut [u8]) {
        let b = self.bytes(out.len());
        out.copy_from_slice(&b);
    }

    pub fn pick<'a, T>(&mut self, items: &'a [T]) -> &'a T {
        &items[self.usize_below(items.len())]
    }

    pub fn shuffle<T>(&mut self, items: &mut [T]) {
        for i in (1..items.len()).rev() {
            let j = self.usize_below(i + 1);
            items.swap(i, j);
        }
    }

    /// A string of `len` characters drawn from `alphabet`.
    pub fn string_from(&mut self, alphabet: &[char], len: usize) -> String {
        (0..len).map(|_| *self.pick(alphabet)).collect()
    }

    pub fn ascii_name(&mut self, min: usize, max: usize) -> String {
        const A: &[u8] = b"abcdefghijklmnopqrstuvwxyzABCDEFGHIJKLMNOPQRSTUVWXYZ0123456789_";
        let len = self.range(min as i64, max as i64) as usize;
        (0..len).map(|_| *self.pick(A) as char).collect()
    }
}

#[cfg(test)]
mod tests {
    use super::*;
    #[test]
    fn deterministic() {
        let mut a = Rng::new(1);
        let mut b = Rng::new(1);
        for _ in 0..100 {
            assert_eq!(a.u64(), b.u64());
        }
        let mut c = Rng::new(2);
        assert_ne!(a.u64(), c.u64());
        for _ in 0..1000 {
            let v = a.range(-3, 3);
            assert!((-3..=3).contains(&v));
        }
    }
}
