//! Shared, code-under-test-independent parts of the verification harness.
pub mod prng;
pub mod refcodec;
pub mod refcrypto;
pub mod report;

pub use prng::Rng;
pub use report::{Cli, Report, Tier};
