//! Command line, three-valued verdicts, known-findings matching, evidence and replay files.
//!
//! Exit codes of every monitor binary: 0 = held on everything observed (known findings are printed
//! as `KNOWN-FINDING:` lines), 1 = at least one violation that the known-findings file does not list
//! (`VIOLATION property=<id> replay=<path>`), 2 = inconclusive (watchdog, nothing observed, harness
//! error). Inconclusive is never folded into the other two.

use serde_json::{Map, Value, json};
use std::collections::{BTreeMap, HashSet};
use std::path::PathBuf;
use std::sync::atomic::{AtomicUsize, Ordering};
use std::time::Instant;

#[derive(Clone, Copy, Debug, PartialEq, Eq)]
pub enum Tier {
    Quick,
    Thorough,
}

impl Tier {
    pub fn as_str(self) -> &'static str {
        match self {
            Tier::Quick => "quick",
            Tier::Thorough => "thorough",
        }
    }
    pub fn pick<T>(self, quick: T, thorough: T) -> T {
        match self {
            Tier::Quick => quick,
            Tier::Thorough => thorough,
        }
    }
}

#[derive(Clone, Debug)]
pub struct Cli {
    pub prop: String,
    pub tier: Tier,
    pub seed: u64,
    pub evidence: PathBuf,
    pub replay_dir: PathBuf,
    pub known: PathBuf,
    /// replay a witness file instead of generating a workload
    pub replay: Option<PathBuf>,
    /// signature recorded in the witness being replayed (monitors without their own single-case
    /// replay re-run the witness's tier and seed; the report then tells whether it reproduced)
    pub replay_signature: Option<String>,
    /// free `--key value` pairs the binary may interpret (e.g. `--scale 0.1`, `--threads 4`)
    pub extra: BTreeMap<String, String>,
}

impl Cli {
    pub fn parse() -> Cli {
        let args: Vec<String> = std::env::args().skip(1).collect();
        let mut map: BTreeMap<String, String> = BTreeMap::new();
        let mut i = 0;
        while i < args.len() {
            if let Some(key) = args[i].strip_prefix("--") {
                let val = args.get(i + 1).cloned().unwrap_or_default();
                map.insert(key.to_string(), val);
                i += 2;
            } else {
                i += 1;
            }
        }
        let take = |m: &mut BTreeMap<String, String>, k: &str| m.remove(k);
        let prop = take(&mut map, "prop").unwrap_or_else(|| "C00".into());
        let tier = match take(&mut map, "tier")
            .or_else(|| std::env::var("VERIF_TIER").ok())
            .as_deref()
        {
            Some("thorough") => Tier::Thorough,
            _ => Tier::Quick,
        };
        let seed = take(&mut map, "seed")
            .or_else(|| std::env::var("VERIF_SEED").ok())
            .and_then(|s| s.trim().parse::<i64>().ok())
            .map(|s| s as u64)
            .unwrap_or(1);
        let root = std::env::var("VERIF_ROOT").unwrap_or_else(|_| "/verif".into());
        let evidence = take(&mut map, "evidence")
            .map(PathBuf::from)
            .unwrap_or_else(|| PathBuf::from(format!("{root}/evidence/{prop}.json")));
        let replay_dir = take(&mut map, "replays")
            .map(PathBuf::from)
            .unwrap_or_else(|| PathBuf::from(format!("{root}/replays")));
        let known = take(&mut map, "known")
            .map(PathBuf::from)
            .unwrap_or_else(|| PathBuf::from(format!("{root}/known_findings.json")));
        let replay = take(&mut map, "replay").map(PathBuf::from);
        let mut tier = tier;
        let mut seed = seed;
        let mut evidence = evidence;
        let mut replay_signature = None;
        if let Some(path) = &replay {
            // a replay must not overwrite the tier's evidence file
            if !std::env::args().any(|a| a == "--evidence") {
                evidence = PathBuf::from(format!("{root}/.run/{prop}-replay-evidence.json"));
            }
            if let Ok(text) = std::fs::read_to_string(path)
                && let Ok(w) = serde_json::from_str::<Value>(&text)
            {
                if let Some(s) = w.get("seed").and_then(|s| s.as_u64()) {
                    seed = s;
                }
                if w.get("tier").and_then(|t| t.as_str()) == Some("thorough") {
                    tier = Tier::Thorough;
                } else if w.get("tier").is_some() {
                    tier = Tier::Quick;
                }
                replay_signature = w.get("signature").and_then(|s| s.as_str()).map(|s| s.to_string());
            }
        }
        Cli {
            prop,
            tier,
            seed,
            evidence,
            replay_dir,
            known,
            replay,
            replay_signature,
            extra: map,
        }
    }

    pub fn threads(&self) -> usize {
        self.extra
            .get("threads")
            .and_then(|s| s.parse().ok())
            .unwrap_or_else(|| {
                std::thread::available_parallelism()
                    .map(|n| n.get())
                    .unwrap_or(4)
                    .min(16)
            })
    }

    /// Multiplier on workload sizes (`--scale`, default 1.0); used for Miri and for smoke runs.
    pub fn scale(&self) -> f64 {
        self.extra
            .get("scale")
            .and_then(|s| s.parse().ok())
            .unwrap_or(1.0)
    }

    pub fn scaled(&self, n: u64) -> u64 {
        ((n as f64 * self.scale()).ceil() as u64).max(1)
    }
}

#[derive(Clone, Debug)]
pub struct Violation {
    /// stable identity: clause + shape, no addresses, no random values
    pub signature: String,
    /// one human readable line
    pub what: String,
    /// everything needed to replay and understand it
    pub witness: Value,
    pub count: u64,
}

#[derive(Clone, Debug)]
struct KnownEntry {
    property: String,
    signature: String,
    what: String,
}

pub struct Report {
    pub prop: String,
    pub tier: Tier,
    pub seed: u64,
    level: String,
    rule: String,
    start: Instant,
    evaluations: u64,
    distinct: HashSet<u64>,
    samples: Vec<Value>,
    max_samples: usize,
    assumptions: Vec<String>,
    violations: Vec<Violation>,
    inconclusive: Vec<String>,
    fatal_inconclusive: bool,
    extra: Map<String, Value>,
    counters: BTreeMap<String, u64>,
    exhaustive: Option<bool>,
    evidence: PathBuf,
    replay_dir: PathBuf,
    known_path: PathBuf,
    replay_signature: Option<String>,
}

fn fnv(s: &str) -> u64 {
    let mut h: u64 = 0xcbf2_9ce4_8422_2325;
    for b in s.as_bytes() {
        h ^= *b as u64;
        h = h.wrapping_mul(0x0000_0100_0000_01b3);
    }
    h
}

impl Report {
    pub fn new(cli: &Cli, level: &str, rule: &str) -> Report {
        Report {
            prop: cli.prop.clone(),
            tier: cli.tier,
            seed: cli.seed,
            level: level.to_string(),
            rule: rule.to_string(),
            start: Instant::now(),
            evaluations: 0,
            distinct: HashSet::new(),
            samples: Vec::new(),
            max_samples: 6,
            assumptions: Vec::new(),
            violations: Vec::new(),
            inconclusive: Vec::new(),
            fatal_inconclusive: false,
            extra: Map::new(),
            counters: BTreeMap::new(),
            exhaustive: None,
            evidence: cli.evidence.clone(),
            replay_dir: cli.replay_dir.clone(),
            known_path: cli.known.clone(),
            replay_signature: cli.replay_signature.clone(),
        }
    }

    /// One executed case. `class` identifies what makes the case distinct and non-trivial (by the
    /// rule stated in `rule`); pass `None` for a trivial case.
    pub fn eval(&mut self, class: Option<&str>) {
        self.evaluations += 1;
        if let Some(c) = class {
            self.distinct.insert(fnv(c));
        }
    }

    pub fn add_evals(&mut self, n: u64) {
        self.evaluations += n;
    }

    pub fn add_distinct(&mut self, class: &str) {
        self.distinct.insert(fnv(class));
    }

    pub fn count(&mut self, counter: &str, n: u64) {
        *self.counters.entry(counter.to_string()).or_insert(0) += n;
    }

    pub fn counter(&self, counter: &str) -> u64 {
        self.counters.get(counter).copied().unwrap_or(0)
    }

    pub fn sample(&mut self, v: Value) {
        if self.samples.len() < self.max_samples {
            self.samples.push(v);
        }
    }

    pub fn wants_sample(&self) -> bool {
        self.samples.len() < self.max_samples
    }

    pub fn set_max_samples(&mut self, n: usize) {
        self.max_samples = n;
    }

    pub fn assume(&mut self, s: &str) {
        if !self.assumptions.iter().any(|a| a == s) {
            self.assumptions.push(s.to_string());
        }
    }

    pub fn set(&mut self, key: &str, v: Value) {
        self.extra.insert(key.to_string(), v);
    }

    pub fn set_exhaustive(&mut self, e: bool) {
        self.exhaustive = Some(e);
    }

    pub fn violation(&mut self, signature: &str, what: &str, witness: Value) {
        if let Some(v) = self.violations.iter_mut().find(|v| v.signature == signature) {
            v.count += 1;
            return;
        }
        self.violations.push(Violation {
            signature: signature.to_string(),
            what: what.to_string(),
            witness,
            count: 1,
        });
    }

    /// Keeps only the violations whose signature satisfies `keep` (a monitor that serves a second
    /// property with a subset of its clauses).
    pub fn retain_violations<F: Fn(&str) -> bool>(&mut self, keep: F) {
        self.violations.retain(|v| keep(&v.signature));
    }

    pub fn violations_so_far(&self) -> usize {
        self.violations.len()
    }

    /// Something prevented a verdict for part of the run (recorded in the evidence).
    pub fn inconclusive(&mut self, why: &str) {
        if self.inconclusive.len() < 50 {
            self.inconclusive.push(why.to_string());
        }
    }

    /// The run as a whole cannot give a verdict (exit 2 unless a violation was also found).
    pub fn inconclusive_fatal(&mut self, why: &str) {
        self.fatal_inconclusive = true;
        self.inconclusive(why);
    }

    pub fn evaluations(&self) -> u64 {
        self.evaluations
    }

    pub fn distinct(&self) -> usize {
        self.distinct.len()
    }

    /// Folds the observations of a worker into this report.
    pub fn merge(&mut self, other: Report) {
        self.evaluations += other.evaluations;
        self.distinct.extend(other.distinct);
        for s in other.samples {
            self.sample(s);
        }
        for a in other.assumptions {
            self.assume(&a);
        }
        for v in other.violations {
            if let Some(mine) = self.violations.iter_mut().find(|m| m.signature == v.signature) {
                mine.count += v.count;
            } else {
                self.violations.push(v);
            }
        }
        for i in other.inconclusive {
            self.inconclusive(&i);
        }
        self.fatal_inconclusive |= other.fatal_inconclusive;
        for (k, v) in other.counters {
            *self.counters.entry(k).or_insert(0) += v;
        }
        for (k, v) in other.extra {
            self.extra.entry(k).or_insert(v);
        }
    }

    /// A fresh, empty report with the same identity (for a worker thread).
    pub fn fork(&self) -> Report {
        Report {
            prop: self.prop.clone(),
            tier: self.tier,
            seed: self.seed,
            level: self.level.clone(),
            rule: self.rule.clone(),
            start: self.start,
            evaluations: 0,
            distinct: HashSet::new(),
            samples: Vec::new(),
            max_samples: self.max_samples,
            assumptions: Vec::new(),
            violations: Vec::new(),
            inconclusive: Vec::new(),
            fatal_inconclusive: false,
            extra: Map::new(),
            counters: BTreeMap::new(),
            exhaustive: None,
            evidence: self.evidence.clone(),
            replay_dir: self.replay_dir.clone(),
            known_path: self.known_path.clone(),
            replay_signature: self.replay_signature.clone(),
        }
    }

    fn load_known(&self) -> Vec<KnownEntry> {
        let Ok(text) = std::fs::read_to_string(&self.known_path) else {
            return vec![];
        };
        let Ok(v) = serde_json::from_str::<Value>(&text) else {
            eprintln!("warning: {} is not valid JSON; ignoring", self.known_path.display());
            return vec![];
        };
        let mut out = vec![];
        if let Some(arr) = v.get("known").and_then(|k| k.as_array()) {
            for e in arr {
                let g = |k: &str| e.get(k).and_then(|x| x.as_str()).unwrap_or("").to_string();
                out.push(KnownEntry {
                    property: g("property"),
                    signature: g("signature"),
                    what: g("what"),
                });
            }
        }
        out
    }

    /// Writes the evidence file, replay files and the verdict lines. Returns the exit code.
    pub fn finish(mut self) -> i32 {
        if let Some(sig) = self.replay_signature.clone() {
            // replay of a witness: only the recorded signature counts
            let n: u64 = self.violations.iter().filter(|v| v.signature == sig).map(|v| v.count).sum();
            self.violations.retain(|v| v.signature == sig);
            println!("[{}] REPLAY of signature {sig}: {}", self.prop, if n > 0 { format!("reproduced ({n}x)") } else { "not reproduced".to_string() });
        }
        let known = self.load_known();
        let wall = self.start.elapsed().as_secs_f64();
        let mut new_violations: Vec<(Violation, PathBuf)> = vec![];
        let mut known_hits: Vec<(KnownEntry, u64)> = vec![];
        let _ = std::fs::create_dir_all(&self.replay_dir);
        for (i, v) in self.violations.iter().enumerate() {
            if let Some(k) = known
                .iter()
                .find(|k| k.property == self.prop && k.signature == v.signature)
            {
                if let Some(hit) = known_hits.iter_mut().find(|(e, _)| e.signature == k.signature) {
                    hit.1 += v.count;
                } else {
                    known_hits.push((k.clone(), v.count));
                }
                continue;
            }
            let path = self.replay_dir.join(format!(
                "{}-{}-seed{}-{}.json",
                self.prop,
                self.tier.as_str(),
                self.seed,
                i
            ));
            let body = json!({
                "property": self.prop,
                "signature": v.signature,
                "what": v.what,
                "occurrences": v.count,
                "seed": self.seed,
                "tier": self.tier.as_str(),
                "witness": v.witness,
            });
            let _ = std::fs::write(&path, serde_json::to_string_pretty(&body).unwrap_or_default());
            new_violations.push((v.clone(), path));
        }

        if self.evaluations == 0 && new_violations.is_empty() {
            self.inconclusive_fatal("the run observed nothing (0 evaluations)");
        }

        // evidence
        let mut coverage = Map::new();
        coverage.insert("evaluations".into(), json!(self.evaluations));
        coverage.insert("distinct_nontrivial".into(), json!(self.distinct.len()));
        coverage.insert("rule".into(), json!(self.rule));
        coverage.insert("samples".into(), Value::Array(self.samples.clone()));
        if let Some(e) = self.exhaustive {
            coverage.insert("exhaustive".into(), json!(e));
        }
        if !self.counters.is_empty() {
            coverage.insert("observed".into(), json!(self.counters));
        }
        for (k, v) in &self.extra {
            coverage.insert(k.clone(), v.clone());
        }
        let verdict = if !new_violations.is_empty() {
            "violated"
        } else if self.fatal_inconclusive {
            "inconclusive"
        } else {
            "held on what was observed"
        };
        let evidence = json!({
            "property_id": self.prop,
            "tier": self.tier.as_str(),
            "seed": self.seed as i64,
            "level": self.level,
            "coverage": Value::Object(coverage),
            "assumptions": self.assumptions,
            "wall_s": (wall * 1000.0).round() / 1000.0,
            "violations": new_violations.len(),
            "verdict": verdict,
            "violation_signatures": new_violations.iter().map(|(v, _)| json!({"signature": v.signature, "what": v.what, "occurrences": v.count})).collect::<Vec<_>>(),
            "known_findings_observed": known_hits.iter().map(|(k, n)| json!({"signature": k.signature, "what": k.what, "occurrences": n})).collect::<Vec<_>>(),
            "inconclusive": self.inconclusive,
        });
        if let Some(dir) = self.evidence.parent() {
            let _ = std::fs::create_dir_all(dir);
        }
        if let Err(e) = std::fs::write(
            &self.evidence,
            serde_json::to_string_pretty(&evidence).unwrap_or_default() + "\n",
        ) {
            eprintln!("cannot write evidence {}: {e}", self.evidence.display());
        }

        // verdict lines
        println!(
            "[{}] tier={} seed={} evaluations={} distinct_nontrivial={} wall={:.1}s",
            self.prop,
            self.tier.as_str(),
            self.seed,
            self.evaluations,
            self.distinct.len(),
            wall
        );
        for (k, v) in &self.counters {
            println!("[{}]   observed {k} = {v}", self.prop);
        }
        for (k, n) in &known_hits {
            println!("KNOWN-FINDING: property={} {} (observed {n}x)", self.prop, k.what);
        }
        for why in &self.inconclusive {
            println!("[{}] INCONCLUSIVE: {why}", self.prop);
        }
        for (v, path) in &new_violations {
            println!("[{}] violated clause {}: {} ({}x)", self.prop, v.signature, v.what, v.count);
            println!("VIOLATION property={} replay={}", self.prop, path.display());
        }
        if !new_violations.is_empty() {
            1
        } else if self.fatal_inconclusive {
            2
        } else {
            println!("[{}] held on everything observed", self.prop);
            0
        }
    }
}

/// Runs `f` over `items` on `threads` worker threads (work stealing by atomic index); results come
/// back in item order.
pub fn par_map<T, R, F>(items: Vec<T>, threads: usize, f: F) -> Vec<R>
where
    T: Send + Sync,
    R: Send,
    F: Fn(usize, &T) -> R + Sync,
{
    let n = items.len();
    let next = AtomicUsize::new(0);
    let mut slots: Vec<Option<R>> = Vec::with_capacity(n);
    slots.resize_with(n, || None);
    let slots = std::sync::Mutex::new(slots);
    std::thread::scope(|s| {
        for _ in 0..threads.max(1).min(n.max(1)) {
            s.spawn(|| {
                loop {
                    let i = next.fetch_add(1, Ordering::Relaxed);
                    if i >= n {
                        break;
                    }
                    let r = f(i, &items[i]);
                    slots.lock().unwrap_or_else(|e| e.into_inner())[i] = Some(r);
                }
            });
        }
    });
    slots
        .into_inner()
        .unwrap_or_else(|e| e.into_inner())
        .into_iter()
        .map(|r| r.expect("worker produced a result"))
        .collect()
}

/// Wall-clock watchdog: if the process is still alive after `secs`, it prints an INCONCLUSIVE line
/// and exits with 2. A watchdog firing is never a violation.
pub fn watchdog(prop: &str, secs: u64) {
    // (a run under an instrumenting tool takes its own time: VERIF_WATCHDOG_SECS overrides)
    let secs = std::env::var("VERIF_WATCHDOG_SECS").ok().and_then(|v| v.parse().ok()).unwrap_or(secs);
    let prop = prop.to_string();
    std::thread::spawn(move || {
        std::thread::sleep(std::time::Duration::from_secs(secs));
        println!("[{prop}] INCONCLUSIVE: wall-clock watchdog fired after {secs}s");
        std::process::exit(2);
    });
}

pub fn hex(bytes: &[u8]) -> String {
    let mut s = String::with_capacity(bytes.len() * 2);
    for b in bytes {
        s.push_str(&format!("{b:02x}"));
    }
    s
}

pub fn unhex(s: &str) -> Vec<u8> {
    (0..s.len() / 2)
        .filter_map(|i| u8::from_str_radix(&s[2 * i..2 * i + 2], 16).ok())
        .collect()
}
