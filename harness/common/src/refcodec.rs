//! Independent reference codec for the Minecraft Java protocol subset passage speaks, written from
//! the protocol description (minecraft.wiki "Java Edition protocol"), synchronous, over byte slices.
//! It shares no code with `passage-packets`; packet ids are literals.

use serde_json::{Map, Number, Value};

#[derive(Clone, Debug, PartialEq, Eq)]
pub enum DecodeError {
    Eof,
    VarIntTooLong,
    BadUtf8,
    BadBool(u8),
    BadNbt(&'static str),
    Trailing(usize),
    BadLength(i64),
    UnknownPacket,
}

pub type DResult<T> = Result<T, DecodeError>;

// ---------------------------------------------------------------------------------------------
// primitives: writer

#[derive(Clone, Debug, Default)]
pub struct W(pub Vec<u8>);

impl W {
    pub fn new() -> Self {
        W(Vec::new())
    }
    pub fn u8(&mut self, v: u8) -> &mut Self {
        self.0.push(v);
        self
    }
    pub fn i8(&mut self, v: i8) -> &mut Self {
        self.0.push(v as u8);
        self
    }
    pub fn bool(&mut self, v: bool) -> &mut Self {
        self.0.push(if v { 1 } else { 0 });
        self
    }
    pub fn u16(&mut self, v: u16) -> &mut Self {
        self.0.extend_from_slice(&v.to_be_bytes());
        self
    }
    pub fn i32(&mut self, v: i32) -> &mut Self {
        self.0.extend_from_slice(&v.to_be_bytes());
        self
    }
    pub fn u64(&mut self, v: u64) -> &mut Self {
        self.0.extend_from_slice(&v.to_be_bytes());
        self
    }
    pub fn i64(&mut self, v: i64) -> &mut Self {
        self.0.extend_from_slice(&v.to_be_bytes());
        self
    }
    pub fn u128(&mut self, v: u128) -> &mut Self {
        self.0.extend_from_slice(&v.to_be_bytes());
        self
    }
    /// VarInt: the value as an unsigned 32-bit number, 7 bits per byte, least significant group
    /// first, high bit = "more follows"; at most 5 bytes.
    pub fn varint(&mut self, v: i32) -> &mut Self {
        let mut u = v as u32;
        loop {
            let group = (u & 0x7f) as u8;
            u >>= 7;
            if u == 0 {
                self.0.push(group);
                break;
            }
            self.0.push(group | 0x80);
        }
        self
    }
    /// VarLong: same on 64 bits, at most 10 bytes.
    pub fn varlong(&mut self, v: i64) -> &mut Self {
        let mut u = v as u64;
        loop {
            let group = (u & 0x7f) as u8;
            u >>= 7;
            if u == 0 {
                self.0.push(group);
                break;
            }
            self.0.push(group | 0x80);
        }
        self
    }
    pub fn raw(&mut self, b: &[u8]) -> &mut Self {
        self.0.extend_from_slice(b);
        self
    }
    /// String: VarInt byte length, then UTF-8.
    pub fn string(&mut self, s: &str) -> &mut Self {
        self.varint(s.len() as i32);
        self.raw(s.as_bytes())
    }
    /// Prefixed byte array: VarInt length, then the bytes.
    pub fn bytes(&mut self, b: &[u8]) -> &mut Self {
        self.varint(b.len() as i32);
        self.raw(b)
    }
    /// Text component as network NBT (nameless root): a string becomes TAG_String, an object a
    /// TAG_Compound.
    pub fn text_component(&mut self, v: &Value) -> &mut Self {
        match v {
            Value::String(s) => {
                self.u8(8);
                self.u16(s.len() as u16);
                self.raw(s.as_bytes());
            }
            other => {
                let tag = nbt_tag_of(other);
                self.u8(tag);
                nbt_write_payload(self, other);
            }
        }
        self
    }
}

fn nbt_tag_of(v: &Value) -> u8 {
    match v {
        Value::Null => 0,
        Value::Bool(_) => 1,
        Value::Number(n) => {
            if n.is_f64() {
                6
            } else {
                4
            }
        }
        Value::String(_) => 8,
        Value::Array(_) => 9,
        Value::Object(_) => 10,
    }
}

fn nbt_write_payload(w: &mut W, v: &Value) {
    match v {
        Value::Null => {}
        Value::Bool(b) => {
            w.u8(*b as u8);
        }
        Value::Number(n) => {
            if n.is_f64() {
                w.0.extend_from_slice(&n.as_f64().unwrap_or(0.0).to_be_bytes());
            } else if let Some(i) = n.as_i64() {
                w.i64(i);
            } else {
                w.i64(n.as_u64().unwrap_or(0) as i64);
            }
        }
        Value::String(s) => {
            w.u16(s.len() as u16);
            w.raw(s.as_bytes());
        }
        Value::Array(items) => {
            // an NBT list has ONE element type. Elements of different kinds are put on the wire the
            // way the game does it: every element that is not a compound (and every compound that
            // looks like such a wrapper itself) is wrapped into a compound under the empty name
            // (a null entry has no NBT form either: it is absent, as a null field is)
            let items: Vec<Value> = items.iter().filter(|it| !it.is_null()).cloned().collect();
            let items = &items;
            let tags: std::collections::BTreeSet<u8> = items.iter().map(nbt_tag_of).collect();
            if tags.len() > 1 {
                let wrapped: Vec<Value> = items
                    .iter()
                    .map(|it| match it {
                        Value::Object(m) if !(m.len() == 1 && m.contains_key("")) => it.clone(),
                        other => {
                            let mut m = Map::new();
                            m.insert(String::new(), other.clone());
                            Value::Object(m)
                        }
                    })
                    .collect();
                w.u8(10);
                w.i32(wrapped.len() as i32);
                for it in &wrapped {
                    nbt_write_payload(w, it);
                }
                return;
            }
            let tag = items.first().map(nbt_tag_of).unwrap_or(0);
            w.u8(tag);
            w.i32(items.len() as i32);
            for it in items {
                nbt_write_payload(w, it);
            }
        }
        Value::Object(map) => {
            for (k, val) in map {
                // JSON null has no NBT form: the entry is absent
                if val.is_null() {
                    continue;
                }
                w.u8(nbt_tag_of(val));
                w.u16(k.len() as u16);
                w.raw(k.as_bytes());
                nbt_write_payload(w, val);
            }
            w.u8(0);
        }
    }
}

// ---------------------------------------------------------------------------------------------
// primitives: reader

#[derive(Clone, Debug)]
pub struct R<'a> {
    pub buf: &'a [u8],
    pub pos: usize,
}

impl<'a> R<'a> {
    pub fn new(buf: &'a [u8]) -> Self {
        R { buf, pos: 0 }
    }
    pub fn remaining(&self) -> usize {
        self.buf.len() - self.pos
    }
    pub fn take(&mut self, n: usize) -> DResult<&'a [u8]> {
        if self.remaining() < n {
            return Err(DecodeError::Eof);
        }
        let s = &self.buf[self.pos..self.pos + n];
        self.pos += n;
        Ok(s)
    }
    pub fn rest(&mut self) -> &'a [u8] {
        let s = &self.buf[self.pos..];
        self.pos = self.buf.len();
        s
    }
    pub fn u8(&mut self) -> DResult<u8> {
        Ok(self.take(1)?[0])
    }
    pub fn i8(&mut self) -> DResult<i8> {
        Ok(self.u8()? as i8)
    }
    pub fn bool(&mut self) -> DResult<bool> {
        match self.u8()? {
            0 => Ok(false),
            1 => Ok(true),
            other => Err(DecodeError::BadBool(other)),
        }
    }
    pub fn u16(&mut self) -> DResult<u16> {
        let b = self.take(2)?;
        Ok(u16::from_be_bytes([b[0], b[1]]))
    }
    pub fn i16(&mut self) -> DResult<i16> {
        Ok(self.u16()? as i16)
    }
    pub fn i32(&mut self) -> DResult<i32> {
        let b = self.take(4)?;
        Ok(i32::from_be_bytes([b[0], b[1], b[2], b[3]]))
    }
    pub fn u64(&mut self) -> DResult<u64> {
        let b = self.take(8)?;
        let mut a = [0u8; 8];
        a.copy_from_slice(b);
        Ok(u64::from_be_bytes(a))
    }
    pub fn i64(&mut self) -> DResult<i64> {
        Ok(self.u64()? as i64)
    }
    pub fn u128(&mut self) -> DResult<u128> {
        let b = self.take(16)?;
        let mut a = [0u8; 16];
        a.copy_from_slice(b);
        Ok(u128::from_be_bytes(a))
    }
    pub fn varint(&mut self) -> DResult<i32> {
        let mut out: u32 = 0;
        for i in 0..5 {
            let b = self.u8()?;
            out |= ((b & 0x7f) as u32) << (7 * i);
            if b & 0x80 == 0 {
                return Ok(out as i32);
            }
        }
        Err(DecodeError::VarIntTooLong)
    }
    pub fn varlong(&mut self) -> DResult<i64> {
        let mut out: u64 = 0;
        for i in 0..10 {
            let b = self.u8()?;
            out |= ((b & 0x7f) as u64) << (7 * i);
            if b & 0x80 == 0 {
                return Ok(out as i64);
            }
        }
        Err(DecodeError::VarIntTooLong)
    }
    pub fn string(&mut self) -> DResult<String> {
        let len = self.varint()?;
        if len < 0 {
            return Err(DecodeError::BadLength(len as i64));
        }
        let b = self.take(len as usize)?;
        String::from_utf8(b.to_vec()).map_err(|_| DecodeError::BadUtf8)
    }
    pub fn bytes(&mut self) -> DResult<Vec<u8>> {
        let len = self.varint()?;
        if len < 0 {
            return Err(DecodeError::BadLength(len as i64));
        }
        Ok(self.take(len as usize)?.to_vec())
    }
    /// Network NBT text component -> JSON value (string or object). NBT numbers become JSON
    /// numbers (NBT has no boolean: a byte stays a number).
    pub fn text_component(&mut self) -> DResult<Value> {
        let tag = self.u8()?;
        nbt_read_payload(self, tag, 0)
    }
    pub fn finish(&self) -> DResult<()> {
        if self.remaining() != 0 {
            return Err(DecodeError::Trailing(self.remaining()));
        }
        Ok(())
    }
}

fn nbt_string(r: &mut R) -> DResult<String> {
    let len = r.u16()? as usize;
    let b = r.take(len)?;
    // modified UTF-8 equals UTF-8 outside NUL and supplementary planes; outside that range the
    // oracle is silent (callers do not generate such text)
    String::from_utf8(b.to_vec()).map_err(|_| DecodeError::BadUtf8)
}

fn nbt_read_payload(r: &mut R, tag: u8, depth: usize) -> DResult<Value> {
    if depth > 64 {
        return Err(DecodeError::BadNbt("nesting too deep"));
    }
    Ok(match tag {
        0 => Value::Null,
        1 => Value::Number(Number::from(r.i8()?)),
        2 => Value::Number(Number::from(r.i16()?)),
        3 => Value::Number(Number::from(r.i32()?)),
        4 => Value::Number(Number::from(r.i64()?)),
        5 => {
            let b = r.take(4)?;
            let f = f32::from_be_bytes([b[0], b[1], b[2], b[3]]);
            Number::from_f64(f as f64).map(Value::Number).unwrap_or(Value::Null)
        }
        6 => {
            let f = f64::from_bits(r.u64()?);
            Number::from_f64(f).map(Value::Number).unwrap_or(Value::Null)
        }
        7 => {
            let n = r.i32()?;
            if n < 0 {
                return Err(DecodeError::BadNbt("negative array length"));
            }
            let b = r.take(n as usize)?;
            Value::Array(b.iter().map(|x| Value::Number(Number::from(*x as i8))).collect())
        }
        8 => Value::String(nbt_string(r)?),
        9 => {
            let item = r.u8()?;
            let n = r.i32()?;
            if n < 0 {
                return Err(DecodeError::BadNbt("negative list length"));
            }
            if item == 0 && n > 0 {
                return Err(DecodeError::BadNbt("list of TAG_End with elements"));
            }
            let mut out = Vec::new();
            for _ in 0..n {
                out.push(nbt_read_payload(r, item, depth + 1)?);
            }
            // a list of compounds may hold wrapped elements of other kinds (see the writer)
            if item == 10 {
                for it in out.iter_mut() {
                    if let Value::Object(m) = it
                        && m.len() == 1
                        && m.contains_key("")
                    {
                        *it = m.remove("").unwrap_or(Value::Null);
                    }
                }
            }
            Value::Array(out)
        }
        10 => {
            let mut map = Map::new();
            loop {
                let t = r.u8()?;
                if t == 0 {
                    break;
                }
                let name = nbt_string(r)?;
                let v = nbt_read_payload(r, t, depth + 1)?;
                map.insert(name, v);
            }
            Value::Object(map)
        }
        11 => {
            let n = r.i32()?;
            if n < 0 {
                return Err(DecodeError::BadNbt("negative array length"));
            }
            let mut out = Vec::new();
            for _ in 0..n {
                out.push(Value::Number(Number::from(r.i32()?)));
            }
            Value::Array(out)
        }
        12 => {
            let n = r.i32()?;
            if n < 0 {
                return Err(DecodeError::BadNbt("negative array length"));
            }
            let mut out = Vec::new();
            for _ in 0..n {
                out.push(Value::Number(Number::from(r.i64()?)));
            }
            Value::Array(out)
        }
        _ => return Err(DecodeError::BadNbt("unknown tag")),
    })
}

/// JSON booleans are indistinguishable from bytes in NBT; integers may be stored in any integer
/// width; this normalises a JSON value for *semantic* comparison with a decoded NBT value.
pub fn nbt_normalise(v: &Value) -> Value {
    match v {
        Value::Bool(b) => Value::Number(Number::from(*b as i64)),
        Value::Array(a) => Value::Array(a.iter().filter(|v| !v.is_null()).map(nbt_normalise).collect()),
        Value::Object(m) => Value::Object(m.iter().filter(|(_, v)| !v.is_null()).map(|(k, v)| (k.clone(), nbt_normalise(v))).collect()),
        other => other.clone(),
    }
}

// ---------------------------------------------------------------------------------------------
// packets

#[derive(Clone, Copy, Debug, PartialEq, Eq, Hash, PartialOrd, Ord)]
pub enum Phase {
    Handshake,
    Status,
    Login,
    Config,
}

#[derive(Clone, Copy, Debug, PartialEq, Eq, Hash, PartialOrd, Ord)]
pub enum Dir {
    /// client -> server
    Serverbound,
    /// server -> client
    Clientbound,
}

#[derive(Clone, Debug, PartialEq)]
pub enum Pkt {
    // handshake, serverbound
    Handshake { protocol: i32, address: String, port: u16, next_state: i32 },
    // status
    StatusRequest,
    StatusPing { payload: u64 },
    StatusResponse { body: String },
    StatusPong { payload: u64 },
    // login, clientbound
    LoginDisconnect { reason: String },
    EncryptionRequest { server_id: String, public_key: Vec<u8>, verify_token: Vec<u8>, should_authenticate: bool },
    LoginSuccess { uuid: u128, name: String, properties: Vec<(String, String, Option<String>)> },
    SetCompression { raw: Vec<u8> },
    LoginPluginRequest { raw: Vec<u8> },
    LoginCookieRequest { key: String },
    // login, serverbound
    LoginStart { name: String, uuid: u128 },
    EncryptionResponse { shared_secret: Vec<u8>, verify_token: Vec<u8> },
    LoginPluginResponse { raw: Vec<u8> },
    LoginAcknowledged,
    LoginCookieResponse { key: String, payload: Option<Vec<u8>> },
    // configuration, clientbound
    ConfCookieRequest { key: String },
    ConfPluginMessageOut { raw: Vec<u8> },
    ConfDisconnect { reason: Value },
    FinishConfiguration,
    ConfKeepAliveOut { id: u64 },
    ConfPing { id: i32 },
    ResetChat,
    RegistryData { raw: Vec<u8> },
    RemoveResourcePack { raw: Vec<u8> },
    AddResourcePack { uuid: u128, url: String, hash: String, forced: bool, prompt: Option<Value> },
    StoreCookie { key: String, payload: Vec<u8> },
    Transfer { host: String, port: i32 },
    FeatureFlags { raw: Vec<u8> },
    UpdateTags { raw: Vec<u8> },
    KnownPacksOut { raw: Vec<u8> },
    CustomReportDetails { raw: Vec<u8> },
    ServerLinks { raw: Vec<u8> },
    // configuration, serverbound
    ClientInformation {
        locale: String,
        view_distance: i8,
        chat_mode: i32,
        chat_colors: bool,
        skin_parts: u8,
        main_hand: i32,
        text_filtering: bool,
        allow_listing: bool,
        particle_status: i32,
    },
    ConfCookieResponse { raw: Vec<u8> },
    ConfPluginMessageIn { raw: Vec<u8> },
    AckFinishConfiguration,
    ConfKeepAliveIn { id: u64 },
    ConfPong { id: i32 },
    ResourcePackResponse { uuid: u128, result: i32 },
    KnownPacksIn { raw: Vec<u8> },
    /// anything else: id and body as found
    Unknown { id: i32, raw: Vec<u8> },
}

impl Pkt {
    /// Short stable name (used in traces and signatures).
    pub fn name(&self) -> &'static str {
        match self {
            Pkt::Handshake { .. } => "Handshake",
            Pkt::StatusRequest => "StatusRequest",
            Pkt::StatusPing { .. } => "StatusPing",
            Pkt::StatusResponse { .. } => "StatusResponse",
            Pkt::StatusPong { .. } => "StatusPong",
            Pkt::LoginDisconnect { .. } => "LoginDisconnect",
            Pkt::EncryptionRequest { .. } => "EncryptionRequest",
            Pkt::LoginSuccess { .. } => "LoginSuccess",
            Pkt::SetCompression { .. } => "SetCompression",
            Pkt::LoginPluginRequest { .. } => "LoginPluginRequest",
            Pkt::LoginCookieRequest { .. } => "LoginCookieRequest",
            Pkt::LoginStart { .. } => "LoginStart",
            Pkt::EncryptionResponse { .. } => "EncryptionResponse",
            Pkt::LoginPluginResponse { .. } => "LoginPluginResponse",
            Pkt::LoginAcknowledged => "LoginAcknowledged",
            Pkt::LoginCookieResponse { .. } => "LoginCookieResponse",
            Pkt::ConfCookieRequest { .. } => "ConfCookieRequest",
            Pkt::ConfPluginMessageOut { .. } => "ConfPluginMessageOut",
            Pkt::ConfDisconnect { .. } => "ConfDisconnect",
            Pkt::FinishConfiguration => "FinishConfiguration",
            Pkt::ConfKeepAliveOut { .. } => "ConfKeepAliveOut",
            Pkt::ConfPing { .. } => "ConfPing",
            Pkt::ResetChat => "ResetChat",
            Pkt::RegistryData { .. } => "RegistryData",
            Pkt::RemoveResourcePack { .. } => "RemoveResourcePack",
            Pkt::AddResourcePack { .. } => "AddResourcePack",
            Pkt::StoreCookie { .. } => "StoreCookie",
            Pkt::Transfer { .. } => "Transfer",
            Pkt::FeatureFlags { .. } => "FeatureFlags",
            Pkt::UpdateTags { .. } => "UpdateTags",
            Pkt::KnownPacksOut { .. } => "KnownPacksOut",
            Pkt::CustomReportDetails { .. } => "CustomReportDetails",
            Pkt::ServerLinks { .. } => "ServerLinks",
            Pkt::ClientInformation { .. } => "ClientInformation",
            Pkt::ConfCookieResponse { .. } => "ConfCookieResponse",
            Pkt::ConfPluginMessageIn { .. } => "ConfPluginMessageIn",
            Pkt::AckFinishConfiguration => "AckFinishConfiguration",
            Pkt::ConfKeepAliveIn { .. } => "ConfKeepAliveIn",
            Pkt::ConfPong { .. } => "ConfPong",
            Pkt::ResourcePackResponse { .. } => "ResourcePackResponse",
            Pkt::KnownPacksIn { .. } => "KnownPacksIn",
            Pkt::Unknown { .. } => "Unknown",
        }
    }

    /// The packet id the protocol assigns (literal table).
    pub fn id(&self) -> i32 {
        match self {
            Pkt::Handshake { .. } => 0x00,
            Pkt::StatusRequest => 0x00,
            Pkt::StatusPing { .. } => 0x01,
            Pkt::StatusResponse { .. } => 0x00,
            Pkt::StatusPong { .. } => 0x01,
            Pkt::LoginDisconnect { .. } => 0x00,
            Pkt::EncryptionRequest { .. } => 0x01,
            Pkt::LoginSuccess { .. } => 0x02,
            Pkt::SetCompression { .. } => 0x03,
            Pkt::LoginPluginRequest { .. } => 0x04,
            Pkt::LoginCookieRequest { .. } => 0x05,
            Pkt::LoginStart { .. } => 0x00,
            Pkt::EncryptionResponse { .. } => 0x01,
            Pkt::LoginPluginResponse { .. } => 0x02,
            Pkt::LoginAcknowledged => 0x03,
            Pkt::LoginCookieResponse { .. } => 0x04,
            Pkt::ConfCookieRequest { .. } => 0x00,
            Pkt::ConfPluginMessageOut { .. } => 0x01,
            Pkt::ConfDisconnect { .. } => 0x02,
            Pkt::FinishConfiguration => 0x03,
            Pkt::ConfKeepAliveOut { .. } => 0x04,
            Pkt::ConfPing { .. } => 0x05,
            Pkt::ResetChat => 0x06,
            Pkt::RegistryData { .. } => 0x07,
            Pkt::RemoveResourcePack { .. } => 0x08,
            Pkt::AddResourcePack { .. } => 0x09,
            Pkt::StoreCookie { .. } => 0x0a,
            Pkt::Transfer { .. } => 0x0b,
            Pkt::FeatureFlags { .. } => 0x0c,
            Pkt::UpdateTags { .. } => 0x0d,
            Pkt::KnownPacksOut { .. } => 0x0e,
            Pkt::CustomReportDetails { .. } => 0x0f,
            Pkt::ServerLinks { .. } => 0x10,
            Pkt::ClientInformation { .. } => 0x00,
            Pkt::ConfCookieResponse { .. } => 0x01,
            Pkt::ConfPluginMessageIn { .. } => 0x02,
            Pkt::AckFinishConfiguration => 0x03,
            Pkt::ConfKeepAliveIn { .. } => 0x04,
            Pkt::ConfPong { .. } => 0x05,
            Pkt::ResourcePackResponse { .. } => 0x06,
            Pkt::KnownPacksIn { .. } => 0x07,
            Pkt::Unknown { id, .. } => *id,
        }
    }

    /// The body (everything after the packet id), in protocol field order.
    pub fn body(&self) -> Vec<u8> {
        let mut w = W::new();
        match self {
            Pkt::Handshake { protocol, address, port, next_state } => {
                w.varint(*protocol).string(address).u16(*port).varint(*next_state);
            }
            Pkt::StatusRequest | Pkt::LoginAcknowledged | Pkt::FinishConfiguration | Pkt::ResetChat | Pkt::AckFinishConfiguration => {}
            Pkt::StatusPing { payload } | Pkt::StatusPong { payload } => {
                w.u64(*payload);
            }
            Pkt::StatusResponse { body } => {
                w.string(body);
            }
            Pkt::LoginDisconnect { reason } => {
                w.string(reason);
            }
            Pkt::EncryptionRequest { server_id, public_key, verify_token, should_authenticate } => {
                w.string(server_id).bytes(public_key).bytes(verify_token).bool(*should_authenticate);
            }
            Pkt::LoginSuccess { uuid, name, properties } => {
                w.u128(*uuid).string(name).varint(properties.len() as i32);
                for (n, v, s) in properties {
                    w.string(n).string(v).bool(s.is_some());
                    if let Some(s) = s {
                        w.string(s);
                    }
                }
            }
            Pkt::LoginCookieRequest { key } | Pkt::ConfCookieRequest { key } => {
                w.string(key);
            }
            Pkt::LoginStart { name, uuid } => {
                w.string(name).u128(*uuid);
            }
            Pkt::EncryptionResponse { shared_secret, verify_token } => {
                w.bytes(shared_secret).bytes(verify_token);
            }
            Pkt::LoginCookieResponse { key, payload } => {
                w.string(key).bool(payload.is_some());
                if let Some(p) = payload {
                    w.bytes(p);
                }
            }
            Pkt::ConfDisconnect { reason } => {
                w.text_component(reason);
            }
            Pkt::ConfKeepAliveOut { id } | Pkt::ConfKeepAliveIn { id } => {
                w.u64(*id);
            }
            Pkt::ConfPing { id } | Pkt::ConfPong { id } => {
                w.i32(*id);
            }
            Pkt::AddResourcePack { uuid, url, hash, forced, prompt } => {
                w.u128(*uuid).string(url).string(hash).bool(*forced).bool(prompt.is_some());
                if let Some(p) = prompt {
                    w.text_component(p);
                }
            }
            Pkt::StoreCookie { key, payload } => {
                w.string(key).bytes(payload);
            }
            Pkt::Transfer { host, port } => {
                w.string(host).varint(*port);
            }
            Pkt::ClientInformation {
                locale,
                view_distance,
                chat_mode,
                chat_colors,
                skin_parts,
                main_hand,
                text_filtering,
                allow_listing,
                particle_status,
            } => {
                w.string(locale)
                    .i8(*view_distance)
                    .varint(*chat_mode)
                    .bool(*chat_colors)
                    .u8(*skin_parts)
                    .varint(*main_hand)
                    .bool(*text_filtering)
                    .bool(*allow_listing)
                    .varint(*particle_status);
            }
            Pkt::ResourcePackResponse { uuid, result } => {
                w.u128(*uuid).varint(*result);
            }
            Pkt::SetCompression { raw }
            | Pkt::LoginPluginRequest { raw }
            | Pkt::LoginPluginResponse { raw }
            | Pkt::ConfPluginMessageOut { raw }
            | Pkt::RegistryData { raw }
            | Pkt::RemoveResourcePack { raw }
            | Pkt::FeatureFlags { raw }
            | Pkt::UpdateTags { raw }
            | Pkt::KnownPacksOut { raw }
            | Pkt::CustomReportDetails { raw }
            | Pkt::ServerLinks { raw }
            | Pkt::ConfCookieResponse { raw }
            | Pkt::ConfPluginMessageIn { raw }
            | Pkt::KnownPacksIn { raw }
            | Pkt::Unknown { raw, .. } => {
                w.raw(raw);
            }
        }
        w.0
    }

    /// The complete frame: VarInt(length of id+body) ‖ VarInt(id) ‖ body.
    pub fn frame(&self) -> Vec<u8> {
        frame(self.id(), &self.body())
    }

    /// Decodes the body of packet `id` in (`phase`, `dir`). The whole body must be consumed, except
    /// for packets that passage models as placeholders, whose body is kept raw.
    pub fn decode(phase: Phase, dir: Dir, id: i32, body: &[u8]) -> DResult<Pkt> {
        use Dir::*;
        use Phase::*;
        let mut r = R::new(body);
        let raw = || body.to_vec();
        let p = match (phase, dir, id) {
            (Handshake, Serverbound, 0x00) => Pkt::Handshake {
                protocol: r.varint()?,
                address: r.string()?,
                port: r.u16()?,
                next_state: r.varint()?,
            },
            (Status, Serverbound, 0x00) => Pkt::StatusRequest,
            (Status, Serverbound, 0x01) => Pkt::StatusPing { payload: r.u64()? },
            (Status, Clientbound, 0x00) => Pkt::StatusResponse { body: r.string()? },
            (Status, Clientbound, 0x01) => Pkt::StatusPong { payload: r.u64()? },
            (Login, Clientbound, 0x00) => Pkt::LoginDisconnect { reason: r.string()? },
            (Login, Clientbound, 0x01) => Pkt::EncryptionRequest {
                server_id: r.string()?,
                public_key: r.bytes()?,
                verify_token: r.bytes()?,
                should_authenticate: r.bool()?,
            },
            (Login, Clientbound, 0x02) => {
                let uuid = r.u128()?;
                let name = r.string()?;
                let n = r.varint()?;
                if !(0..=1024).contains(&n) {
                    return Err(DecodeError::BadLength(n as i64));
                }
                let mut properties = vec![];
                for _ in 0..n {
                    let pn = r.string()?;
                    let pv = r.string()?;
                    let sig = if r.bool()? { Some(r.string()?) } else { None };
                    properties.push((pn, pv, sig));
                }
                Pkt::LoginSuccess { uuid, name, properties }
            }
            (Login, Clientbound, 0x03) => {
                r.rest();
                Pkt::SetCompression { raw: raw() }
            }
            (Login, Clientbound, 0x04) => {
                r.rest();
                Pkt::LoginPluginRequest { raw: raw() }
            }
            (Login, Clientbound, 0x05) => Pkt::LoginCookieRequest { key: r.string()? },
            (Login, Serverbound, 0x00) => Pkt::LoginStart { name: r.string()?, uuid: r.u128()? },
            (Login, Serverbound, 0x01) => Pkt::EncryptionResponse { shared_secret: r.bytes()?, verify_token: r.bytes()? },
            (Login, Serverbound, 0x02) => {
                r.rest();
                Pkt::LoginPluginResponse { raw: raw() }
            }
            (Login, Serverbound, 0x03) => Pkt::LoginAcknowledged,
            (Login, Serverbound, 0x04) => {
                let key = r.string()?;
                let payload = if r.bool()? { Some(r.bytes()?) } else { None };
                Pkt::LoginCookieResponse { key, payload }
            }
            (Config, Clientbound, 0x00) => Pkt::ConfCookieRequest { key: r.string()? },
            (Config, Clientbound, 0x01) => {
                r.rest();
                Pkt::ConfPluginMessageOut { raw: raw() }
            }
            (Config, Clientbound, 0x02) => Pkt::ConfDisconnect { reason: r.text_component()? },
            (Config, Clientbound, 0x03) => Pkt::FinishConfiguration,
            (Config, Clientbound, 0x04) => Pkt::ConfKeepAliveOut { id: r.u64()? },
            (Config, Clientbound, 0x05) => Pkt::ConfPing { id: r.i32()? },
            (Config, Clientbound, 0x06) => Pkt::ResetChat,
            (Config, Clientbound, 0x07) => {
                r.rest();
                Pkt::RegistryData { raw: raw() }
            }
            (Config, Clientbound, 0x08) => {
                r.rest();
                Pkt::RemoveResourcePack { raw: raw() }
            }
            (Config, Clientbound, 0x09) => {
                let uuid = r.u128()?;
                let url = r.string()?;
                let hash = r.string()?;
                let forced = r.bool()?;
                let prompt = if r.bool()? { Some(r.text_component()?) } else { None };
                Pkt::AddResourcePack { uuid, url, hash, forced, prompt }
            }
            (Config, Clientbound, 0x0a) => Pkt::StoreCookie { key: r.string()?, payload: r.bytes()? },
            (Config, Clientbound, 0x0b) => Pkt::Transfer { host: r.string()?, port: r.varint()? },
            (Config, Clientbound, 0x0c) => {
                r.rest();
                Pkt::FeatureFlags { raw: raw() }
            }
            (Config, Clientbound, 0x0d) => {
                r.rest();
                Pkt::UpdateTags { raw: raw() }
            }
            (Config, Clientbound, 0x0e) => {
                r.rest();
                Pkt::KnownPacksOut { raw: raw() }
            }
            (Config, Clientbound, 0x0f) => {
                r.rest();
                Pkt::CustomReportDetails { raw: raw() }
            }
            (Config, Clientbound, 0x10) => {
                r.rest();
                Pkt::ServerLinks { raw: raw() }
            }
            (Config, Serverbound, 0x00) => Pkt::ClientInformation {
                locale: r.string()?,
                view_distance: r.i8()?,
                chat_mode: r.varint()?,
                chat_colors: r.bool()?,
                skin_parts: r.u8()?,
                main_hand: r.varint()?,
                text_filtering: r.bool()?,
                allow_listing: r.bool()?,
                particle_status: r.varint()?,
            },
            (Config, Serverbound, 0x01) => {
                r.rest();
                Pkt::ConfCookieResponse { raw: raw() }
            }
            (Config, Serverbound, 0x02) => {
                r.rest();
                Pkt::ConfPluginMessageIn { raw: raw() }
            }
            (Config, Serverbound, 0x03) => Pkt::AckFinishConfiguration,
            (Config, Serverbound, 0x04) => Pkt::ConfKeepAliveIn { id: r.u64()? },
            (Config, Serverbound, 0x05) => Pkt::ConfPong { id: r.i32()? },
            (Config, Serverbound, 0x06) => Pkt::ResourcePackResponse { uuid: r.u128()?, result: r.varint()? },
            (Config, Serverbound, 0x07) => {
                r.rest();
                Pkt::KnownPacksIn { raw: raw() }
            }
            _ => return Err(DecodeError::UnknownPacket),
        };
        r.finish()?;
        Ok(p)
    }
}

pub fn frame(id: i32, body: &[u8]) -> Vec<u8> {
    let mut inner = W::new();
    inner.varint(id).raw(body);
    let mut out = W::new();
    out.varint(inner.0.len() as i32).raw(&inner.0);
    out.0
}

/// Tries to split one complete frame off the front of `buf`:
/// `Ok(Some((id, body, consumed)))`, `Ok(None)` if more bytes are needed, `Err` if the bytes
/// cannot be the start of a frame (non-positive or absurd length, over-long VarInt).
pub fn split_frame(buf: &[u8], max_len: usize) -> DResult<Option<(i32, Vec<u8>, usize)>> {
    let mut r = R::new(buf);
    let len = match r.varint() {
        Ok(l) => l,
        Err(DecodeError::Eof) => return Ok(None),
        Err(e) => return Err(e),
    };
    if len <= 0 || len as usize > max_len {
        return Err(DecodeError::BadLength(len as i64));
    }
    let start = r.pos;
    if r.remaining() < len as usize {
        return Ok(None);
    }
    let inner = r.take(len as usize)?;
    let mut ir = R::new(inner);
    let id = ir.varint()?;
    let body = ir.rest().to_vec();
    Ok(Some((id, body, start + len as usize)))
}

#[cfg(test)]
mod tests {
    use super::*;

    #[test]
    fn varint_vectors() {
        // the sample table of the protocol documentation
        let table: &[(i32, &[u8])] = &[
            (0, &[0x00]),
            (1, &[0x01]),
            (2, &[0x02]),
            (127, &[0x7f]),
            (128, &[0x80, 0x01]),
            (255, &[0xff, 0x01]),
            (25565, &[0xdd, 0xc7, 0x01]),
            (2097151, &[0xff, 0xff, 0x7f]),
            (2147483647, &[0xff, 0xff, 0xff, 0xff, 0x07]),
            (-1, &[0xff, 0xff, 0xff, 0xff, 0x0f]),
            (-2147483648, &[0x80, 0x80, 0x80, 0x80, 0x08]),
        ];
        for (v, bytes) in table {
            let mut w = W::new();
            w.varint(*v);
            assert_eq!(&w.0, bytes);
            assert_eq!(R::new(bytes).varint().unwrap(), *v);
        }
        let long: &[(i64, &[u8])] = &[
            (0, &[0x00]),
            (2147483647, &[0xff, 0xff, 0xff, 0xff, 0x07]),
            (9223372036854775807, &[0xff, 0xff, 0xff, 0xff, 0xff, 0xff, 0xff, 0xff, 0x7f]),
            (-1, &[0xff, 0xff, 0xff, 0xff, 0xff, 0xff, 0xff, 0xff, 0xff, 0x01]),
            (-2147483648, &[0x80, 0x80, 0x80, 0x80, 0xf8, 0xff, 0xff, 0xff, 0xff, 0x01]),
            (-9223372036854775808, &[0x80, 0x80, 0x80, 0x80, 0x80, 0x80, 0x80, 0x80, 0x80, 0x01]),
        ];
        for (v, bytes) in long {
            let mut w = W::new();
            w.varlong(*v);
            assert_eq!(&w.0, bytes);
            assert_eq!(R::new(bytes).varlong().unwrap(), *v);
        }
    }

    #[test]
    fn roundtrip_some() {
        let p = Pkt::Handshake { protocol: 767, address: "play.example.org".into(), port: 25565, next_state: 2 };
        let f = p.frame();
        let (id, body, used) = split_frame(&f, 1 << 21).unwrap().unwrap();
        assert_eq!(used, f.len());
        assert_eq!(Pkt::decode(Phase::Handshake, Dir::Serverbound, id, &body).unwrap(), p);
        let d = Pkt::ConfDisconnect { reason: serde_json::json!({"text": "bye", "extra": [{"text": "x"}]}) };
        let (id, body, _) = split_frame(&d.frame(), 1 << 21).unwrap().unwrap();
        assert_eq!(Pkt::decode(Phase::Config, Dir::Clientbound, id, &body).unwrap(), d);
    }
}
