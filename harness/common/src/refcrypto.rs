//! Independent reference cryptography used only as *oracles*: AES-128 written out from FIPS-197
//! (S-box computed, not tabulated), CFB8 on top of it, HMAC-SHA256 as the ipad/opad construction
//! over `sha2::Sha256`, and Minecraft's signed-hex digest formatting by hand. `self_test()` checks
//! them against published vectors (and AES against the `aes` crate) before any verdict is taken.

use sha1::Sha1;
use sha2::{Digest, Sha256};

// ---------------------------------------------------------------------------------------------
// AES-128 (encryption direction only; CFB uses only the forward block function)

fn gf_mul(mut a: u8, mut b: u8) -> u8 {
    let mut p = 0u8;
    for _ in 0..8 {
        if b & 1 != 0 {
            p ^= a;
        }
        let hi = a & 0x80;
        a <<= 1;
        if hi != 0 {
            a ^= 0x1b;
        }
        b >>= 1;
    }
    p
}

fn sbox() -> [u8; 256] {
    // computed once per process (the brute-force inverse is slow under Miri)
    static SBOX: std::sync::OnceLock<[u8; 256]> = std::sync::OnceLock::new();
    *SBOX.get_or_init(compute_sbox)
}

fn compute_sbox() -> [u8; 256] {
    // multiplicative inverse in GF(2^8) followed by the affine transformation
    let mut inv = [0u8; 256];
    for a in 1..=255u8 {
        for b in 1..=255u8 {
            if gf_mul(a, b) == 1 {
                inv[a as usize] = b;
                break;
            }
        }
    }
    let mut s = [0u8; 256];
    for x in 0..256usize {
        let i = inv[x];
        s[x] = i ^ i.rotate_left(1) ^ i.rotate_left(2) ^ i.rotate_left(3) ^ i.rotate_left(4) ^ 0x63;
    }
    s
}

#[derive(Clone)]
pub struct Aes128 {
    round_keys: [[u8; 16]; 11],
    sbox: [u8; 256],
}

impl Aes128 {
    pub fn new(key: &[u8; 16]) -> Self {
        let sbox = sbox();
        let mut w = [[0u8; 4]; 44];
        for i in 0..4 {
            w[i].copy_from_slice(&key[4 * i..4 * i + 4]);
        }
        let mut rcon = 1u8;
        for i in 4..44 {
            let mut t = w[i - 1];
            if i % 4 == 0 {
                t = [sbox[t[1] as usize] ^ rcon, sbox[t[2] as usize], sbox[t[3] as usize], sbox[t[0] as usize]];
                rcon = gf_mul(rcon, 2);
            }
            for j in 0..4 {
                w[i][j] = w[i - 4][j] ^ t[j];
            }
        }
        let mut round_keys = [[0u8; 16]; 11];
        for r in 0..11 {
            for c in 0..4 {
                round_keys[r][4 * c..4 * c + 4].copy_from_slice(&w[4 * r + c]);
            }
        }
        Aes128 { round_keys, sbox }
    }

    pub fn encrypt_block(&self, block: &[u8; 16]) -> [u8; 16] {
        // state is column-major: byte i is row i%4, column i/4
        let mut s = *block;
        let add = |s: &mut [u8; 16], k: &[u8; 16]| {
            for i in 0..16 {
                s[i] ^= k[i];
            }
        };
        add(&mut s, &self.round_keys[0]);
        for round in 1..=10 {
            // SubBytes
            for b in s.iter_mut() {
                *b = self.sbox[*b as usize];
            }
            // ShiftRows: row r rotates left by r
            let t = s;
            for c in 0..4 {
                for r in 0..4 {
                    s[4 * c + r] = t[4 * ((c + r) % 4) + r];
                }
            }
            // MixColumns (not in the last round)
            if round != 10 {
                for c in 0..4 {
                    let a = [s[4 * c], s[4 * c + 1], s[4 * c + 2], s[4 * c + 3]];
                    s[4 * c] = gf_mul(a[0], 2) ^ gf_mul(a[1], 3) ^ a[2] ^ a[3];
                    s[4 * c + 1] = a[0] ^ gf_mul(a[1], 2) ^ gf_mul(a[2], 3) ^ a[3];
                    s[4 * c + 2] = a[0] ^ a[1] ^ gf_mul(a[2], 2) ^ gf_mul(a[3], 3);
                    s[4 * c + 3] = gf_mul(a[0], 3) ^ a[1] ^ a[2] ^ gf_mul(a[3], 2);
                }
            }
            add(&mut s, &self.round_keys[round]);
        }
        s
    }
}

// ---------------------------------------------------------------------------------------------
// CFB8: shift register starts as the IV; per byte: c = p ^ E(reg)[0]; reg = reg[1..] ‖ c

#[derive(Clone)]
pub struct Cfb8 {
    aes: Aes128,
    reg: [u8; 16],
}

impl Cfb8 {
    pub fn new(key: &[u8; 16], iv: &[u8; 16]) -> Self {
        Cfb8 { aes: Aes128::new(key), reg: *iv }
    }

    /// Minecraft: key = IV = shared secret.
    pub fn minecraft(secret: &[u8; 16]) -> Self {
        Self::new(secret, secret)
    }

    fn shift(&mut self, c: u8) {
        self.reg.copy_within(1.., 0);
        self.reg[15] = c;
    }

    pub fn encrypt_byte(&mut self, p: u8) -> u8 {
        let c = p ^ self.aes.encrypt_block(&self.reg)[0];
        self.shift(c);
        c
    }

    pub fn decrypt_byte(&mut self, c: u8) -> u8 {
        let p = c ^ self.aes.encrypt_block(&self.reg)[0];
        self.shift(c);
        p
    }

    pub fn encrypt(&mut self, data: &[u8]) -> Vec<u8> {
        data.iter().map(|b| self.encrypt_byte(*b)).collect()
    }

    pub fn decrypt(&mut self, data: &[u8]) -> Vec<u8> {
        data.iter().map(|b| self.decrypt_byte(*b)).collect()
    }
}

// ---------------------------------------------------------------------------------------------
// HMAC-SHA256 (RFC 2104 construction, block size 64)

pub fn hmac_sha256(key: &[u8], message: &[u8]) -> [u8; 32] {
    let mut k = [0u8; 64];
    if key.len() > 64 {
        let d = Sha256::digest(key);
        k[..32].copy_from_slice(&d);
    } else {
        k[..key.len()].copy_from_slice(key);
    }
    let mut ipad = [0x36u8; 64];
    let mut opad = [0x5cu8; 64];
    for i in 0..64 {
        ipad[i] ^= k[i];
        opad[i] ^= k[i];
    }
    let mut inner = Sha256::new();
    inner.update(ipad);
    inner.update(message);
    let inner = inner.finalize();
    let mut outer = Sha256::new();
    outer.update(opad);
    outer.update(inner);
    let out = outer.finalize();
    let mut r = [0u8; 32];
    r.copy_from_slice(&out);
    r
}

/// passage's signed-cookie layout according to the property: 32-byte tag ‖ message.
pub fn sign_cookie(secret: &[u8], message: &[u8]) -> Vec<u8> {
    let mut out = hmac_sha256(secret, message).to_vec();
    out.extend_from_slice(message);
    out
}

// ---------------------------------------------------------------------------------------------
// Minecraft server hash

/// Two's complement big-endian digest -> lowercase hex without leading zeros, '-' when negative.
pub fn signed_hex(digest: &[u8]) -> String {
    let negative = digest.first().map(|b| b & 0x80 != 0).unwrap_or(false);
    let mut mag = digest.to_vec();
    if negative {
        // negate: invert and add one
        for b in mag.iter_mut() {
            *b = !*b;
        }
        for b in mag.iter_mut().rev() {
            let (v, carry) = b.overflowing_add(1);
            *b = v;
            if !carry {
                break;
            }
        }
    }
    let mut hex = String::new();
    for b in &mag {
        hex.push_str(&format!("{b:02x}"));
    }
    let trimmed = hex.trim_start_matches('0');
    let body = if trimmed.is_empty() { "0" } else { trimmed };
    if negative { format!("-{body}") } else { body.to_string() }
}

pub fn sha1_concat(parts: &[&[u8]]) -> [u8; 20] {
    let mut all = Vec::new();
    for p in parts {
        all.extend_from_slice(p);
    }
    let d = Sha1::digest(&all);
    let mut r = [0u8; 20];
    r.copy_from_slice(&d);
    r
}

/// The bytes of a server id as the game hashes them: `serverId.getBytes("ISO_8859_1")`, one byte per
/// character up to U+00FF, `?` for every character beyond (one per code point).
pub fn minecraft_id_bytes(server_id: &str) -> Vec<u8> {
    server_id.chars().map(|c| if (c as u32) <= 0xff { c as u32 as u8 } else { b'?' }).collect()
}

pub fn minecraft_hash_ref(server_id: &str, shared_secret: &[u8], encoded_public: &[u8]) -> String {
    signed_hex(&sha1_concat(&[&minecraft_id_bytes(server_id), shared_secret, encoded_public]))
}

// ---------------------------------------------------------------------------------------------

/// Checks the reference implementations against published vectors. Returns a description of the
/// first mismatch (the harness then refuses to give verdicts).
pub fn self_test() -> Result<(), String> {
    // FIPS-197 appendix C.1
    let key: [u8; 16] = core::array::from_fn(|i| i as u8);
    let pt: [u8; 16] = core::array::from_fn(|i| (i as u8) * 0x11);
    let ct = Aes128::new(&key).encrypt_block(&pt);
    let want = [0x69, 0xc4, 0xe0, 0xd8, 0x6a, 0x7b, 0x04, 0x30, 0xd8, 0xcd, 0xb7, 0x80, 0x70, 0xb4, 0xc5, 0x5a];
    if ct != want {
        return Err(format!("AES-128 FIPS-197 C.1 mismatch: {ct:02x?}"));
    }
    // cross-check against the aes crate on a few blocks
    {
        use aes::cipher::{BlockEncrypt, KeyInit, generic_array::GenericArray};
        for n in 0..16u8 {
            let key: [u8; 16] = core::array::from_fn(|i| (i as u8).wrapping_mul(37).wrapping_add(n));
            let pt: [u8; 16] = core::array::from_fn(|i| (i as u8).wrapping_mul(101) ^ n);
            let mine = Aes128::new(&key).encrypt_block(&pt);
            let theirs = aes::Aes128::new(GenericArray::from_slice(&key));
            let mut b = GenericArray::clone_from_slice(&pt);
            theirs.encrypt_block(&mut b);
            if mine[..] != b[..] {
                return Err("AES-128 differs from the aes crate".into());
            }
        }
    }
    // NIST SP 800-38A F.3.7 CFB8-AES128.Encrypt
    let key = [0x2b, 0x7e, 0x15, 0x16, 0x28, 0xae, 0xd2, 0xa6, 0xab, 0xf7, 0x15, 0x88, 0x09, 0xcf, 0x4f, 0x3c];
    let iv: [u8; 16] = core::array::from_fn(|i| i as u8);
    let pt = [0x6b, 0xc1, 0xbe, 0xe2, 0x2e, 0x40, 0x9f, 0x96, 0xe9, 0x3d, 0x7e, 0x11, 0x73, 0x93, 0x17, 0x2a, 0xae, 0x2d];
    let want = [0x3b, 0x79, 0x42, 0x4c, 0x9c, 0x0d, 0xd4, 0x36, 0xba, 0xce, 0x9e, 0x0e, 0xd4, 0x58, 0x6a, 0x4f, 0x32, 0xb9];
    let got = Cfb8::new(&key, &iv).encrypt(&pt);
    if got != want {
        return Err(format!("CFB8 SP800-38A F.3.7 mismatch: {got:02x?}"));
    }
    if Cfb8::new(&key, &iv).decrypt(&want) != pt {
        return Err("CFB8 decrypt mismatch".into());
    }
    // RFC 4231 test case 2
    let tag = hmac_sha256(b"Jefe", b"what do ya want for nothing?");
    let want = "5bdcc146bf60754e6a042426089575c75a003f089d2739839dec58b964ec3843";
    if crate::report::hex(&tag) != want {
        return Err("HMAC-SHA256 RFC 4231 #2 mismatch".into());
    }
    // RFC 4231 test case 6 (key longer than the block)
    let tag = hmac_sha256(&[0xaa; 131], b"Test Using Larger Than Block-Size Key - Hash Key First");
    let want = "60e431591ee0b67f0d8a26aacbf5b77f8e0bc6213728c5140546040f0ee37f54";
    if crate::report::hex(&tag) != want {
        return Err("HMAC-SHA256 RFC 4231 #6 mismatch".into());
    }
    // Minecraft's published digests
    for (name, want) in [
        ("Notch", "4ed1f46bbe04bc756bcb17c0c7ce3e4632f06a48"),
        ("jeb_", "-7c9d5b0044c130109a5d7b5fb5c317c02b4e28c1"),
        ("simon", "88e16a1019277b15d58faf0541e11910eb756f6"),
    ] {
        let got = minecraft_hash_ref(name, b"", b"");
        if got != want {
            return Err(format!("signed hex digest of {name}: {got} != {want}"));
        }
    }
    Ok(())
}

#[cfg(test)]
mod tests {
    #[test]
    fn vectors() {
        super::self_test().unwrap();
    }
}
