//! Simulation layer of the harness: plan-driven in-memory transport, recording adapters, the
//! scripted reference client and the counting allocator.
pub mod allocmon;
pub mod client;
pub mod recadapters;
pub mod scripts;
pub mod simnet;
