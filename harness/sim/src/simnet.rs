//! In-memory duplex transport whose server side is governed by *plans* (how reads are chunked and
//! interrupted by `Pending`, how writes are accepted) and which logs every server-side poll. The
//! log lives behind the same mutex as the byte queues, so the monitor's view is updated atomically
//! with the state it shadows.

use std::collections::VecDeque;
use std::io;
use std::pin::Pin;
use std::sync::{Arc, Mutex};
use std::task::{Context, Poll, Waker};
use tokio::io::{AsyncRead, AsyncWrite, ReadBuf};
use tokio::sync::Notify;

/// How the server's `poll_read` calls are answered.
#[derive(Clone, Debug, Default)]
pub struct ReadPlan {
    /// maximum number of bytes delivered per successful poll, cycled; empty = unlimited
    pub chunks: Vec<usize>,
    /// per poll (cycled): answer `Pending` (with an immediate self-wake) before delivering
    pub pending: Vec<bool>,
}

/// How the server's `poll_write` calls are answered.
#[derive(Clone, Debug, Default)]
pub struct WritePlan {
    /// per poll (cycled): `Some(k)` accept at most k bytes (k ≥ 1), `None` = `Pending` (self-wake);
    /// empty = accept everything
    pub steps: Vec<Option<usize>>,
    /// (offset in the clientbound byte stream, virtual duration): a write is cut at that offset and
    /// the transport then accepts nothing for that long (a full socket buffer)
    pub stalls: Vec<(usize, std::time::Duration)>,
}

#[derive(Clone, Debug, PartialEq, Eq)]
pub enum IoEvent {
    Read { t_ns: u64, wanted: usize, delivered: usize },
    ReadPending { t_ns: u64, spurious: bool },
    ReadEof { t_ns: u64 },
    Write { t_ns: u64, offered: usize, accepted: usize },
    WritePending { t_ns: u64 },
    Shutdown { t_ns: u64 },
}

struct Shared {
    // client -> server
    c2s: VecDeque<u8>,
    c2s_eof: bool,
    c2s_total_sent: usize,
    c2s_total_read: usize,
    server_read_waker: Option<Waker>,
    read_plan: ReadPlan,
    read_polls: usize,
    polls_after_eof: usize,
    eof_spin: bool,
    // server -> client
    s2c: Vec<u8>,
    s2c_taken: usize,
    server_closed: bool,
    write_plan: WritePlan,
    write_polls: usize,
    write_blocked_until: Option<tokio::time::Instant>,
    write_waker: Option<Waker>,
    stalls_done: usize,
    log: Vec<IoEvent>,
    log_enabled: bool,
    start: tokio::time::Instant,
}

impl Shared {
    fn now(&self) -> u64 {
        tokio::time::Instant::now().saturating_duration_since(self.start).as_nanos() as u64
    }
    fn log(&mut self, e: IoEvent) {
        if self.log_enabled && self.log.len() < 200_000 {
            self.log.push(e);
        }
    }
}

/// Server side endpoint: what `Connection` gets as its stream.
pub struct SimStream {
    shared: Arc<Mutex<Shared>>,
    notify: Arc<Notify>,
}

/// Client side endpoint: used by the reference client and by the monitor.
#[derive(Clone)]
pub struct ClientEnd {
    shared: Arc<Mutex<Shared>>,
    notify: Arc<Notify>,
}

/// After the client's EOF the server may poll a few more times; more than this many read polls
/// after EOF is recorded as a spin (the stream then returns an error so that the run terminates).
pub const EOF_POLL_BUDGET: usize = 10_000;

pub fn pair(read_plan: ReadPlan, write_plan: WritePlan, log_enabled: bool) -> (SimStream, ClientEnd) {
    let shared = Arc::new(Mutex::new(Shared {
        c2s: VecDeque::new(),
        c2s_eof: false,
        c2s_total_sent: 0,
        c2s_total_read: 0,
        server_read_waker: None,
        read_plan,
        read_polls: 0,
        polls_after_eof: 0,
        eof_spin: false,
        s2c: Vec::new(),
        s2c_taken: 0,
        server_closed: false,
        write_plan,
        write_polls: 0,
        write_blocked_until: None,
        write_waker: None,
        stalls_done: 0,
        log: Vec::new(),
        log_enabled,
        start: tokio::time::Instant::now(),
    }));
    let notify = Arc::new(Notify::new());
    (SimStream { shared: shared.clone(), notify: notify.clone() }, ClientEnd { shared, notify })
}

fn lock(m: &Mutex<Shared>) -> std::sync::MutexGuard<'_, Shared> {
    m.lock().unwrap_or_else(|e| e.into_inner())
}

impl AsyncRead for SimStream {
    fn poll_read(self: Pin<&mut Self>, cx: &mut Context<'_>, buf: &mut ReadBuf<'_>) -> Poll<io::Result<()>> {
        let mut s = lock(&self.shared);
        let t = s.now();
        let poll_index = s.read_polls;
        s.read_polls += 1;
        if buf.remaining() == 0 {
            return Poll::Ready(Ok(()));
        }
        if s.c2s.is_empty() {
            if s.c2s_eof {
                s.polls_after_eof += 1;
                if s.polls_after_eof > EOF_POLL_BUDGET {
                    s.eof_spin = true;
                    return Poll::Ready(Err(io::Error::other("harness: read poll budget after EOF exceeded")));
                }
                s.log(IoEvent::ReadEof { t_ns: t });
                return Poll::Ready(Ok(()));
            }
            s.server_read_waker = Some(cx.waker().clone());
            s.log(IoEvent::ReadPending { t_ns: t, spurious: false });
            return Poll::Pending;
        }
        // data is available: the plan may still answer Pending once (spurious wake-up)
        if !s.read_plan.pending.is_empty() {
            let p = s.read_plan.pending[poll_index % s.read_plan.pending.len()];
            if p {
                s.log(IoEvent::ReadPending { t_ns: t, spurious: true });
                cx.waker().wake_by_ref();
                return Poll::Pending;
            }
        }
        let cap = if s.read_plan.chunks.is_empty() {
            usize::MAX
        } else {
            s.read_plan.chunks[poll_index % s.read_plan.chunks.len()].max(1)
        };
        let n = cap.min(buf.remaining()).min(s.c2s.len());
        let wanted = buf.remaining();
        for _ in 0..n {
            let b = s.c2s.pop_front().expect("length checked");
            buf.put_slice(&[b]);
        }
        s.c2s_total_read += n;
        s.log(IoEvent::Read { t_ns: t, wanted, delivered: n });
        Poll::Ready(Ok(()))
    }
}

impl AsyncWrite for SimStream {
    fn poll_write(self: Pin<&mut Self>, cx: &mut Context<'_>, buf: &[u8]) -> Poll<io::Result<usize>> {
        let mut s = lock(&self.shared);
        let t = s.now();
        let poll_index = s.write_polls;
        s.write_polls += 1;
        if buf.is_empty() {
            return Poll::Ready(Ok(0));
        }
        // a stalled transport accepts nothing until the stall is over
        if let Some(until) = s.write_blocked_until {
            if tokio::time::Instant::now() < until {
                s.write_waker = Some(cx.waker().clone());
                s.log(IoEvent::WritePending { t_ns: t });
                return Poll::Pending;
            }
            s.write_blocked_until = None;
        }
        let mut limit = usize::MAX;
        if let Some((at, dur)) = s.write_plan.stalls.get(s.stalls_done).copied() {
            let written = s.s2c.len();
            if written >= at {
                // begin the stall now
                s.stalls_done += 1;
                s.write_blocked_until = Some(tokio::time::Instant::now() + dur);
                s.write_waker = Some(cx.waker().clone());
                let shared = self.shared.clone();
                tokio::spawn(async move {
                    tokio::time::sleep(dur).await;
                    let w = lock(&shared).write_waker.take();
                    if let Some(w) = w {
                        w.wake();
                    }
                });
                s.log(IoEvent::WritePending { t_ns: t });
                return Poll::Pending;
            }
            limit = at - written;
        }
        let step = if s.write_plan.steps.is_empty() {
            Some(usize::MAX)
        } else {
            s.write_plan.steps[poll_index % s.write_plan.steps.len()]
        };
        let step = step.map(|k| k.min(limit));
        match step {
            None => {
                s.log(IoEvent::WritePending { t_ns: t });
                cx.waker().wake_by_ref();
                Poll::Pending
            }
            Some(k) => {
                let n = k.max(1).min(buf.len());
                s.s2c.extend_from_slice(&buf[..n]);
                s.log(IoEvent::Write { t_ns: t, offered: buf.len(), accepted: n });
                drop(s);
                self.notify.notify_waiters();
                self.notify.notify_one();
                Poll::Ready(Ok(n))
            }
        }
    }

    fn poll_flush(self: Pin<&mut Self>, _cx: &mut Context<'_>) -> Poll<io::Result<()>> {
        Poll::Ready(Ok(()))
    }

    fn poll_shutdown(self: Pin<&mut Self>, _cx: &mut Context<'_>) -> Poll<io::Result<()>> {
        let mut s = lock(&self.shared);
        let t = s.now();
        s.server_closed = true;
        s.log(IoEvent::Shutdown { t_ns: t });
        drop(s);
        self.notify.notify_waiters();
        self.notify.notify_one();
        Poll::Ready(Ok(()))
    }
}

impl Drop for SimStream {
    fn drop(&mut self) {
        let mut s = lock(&self.shared);
        s.server_closed = true;
        drop(s);
        self.notify.notify_waiters();
        self.notify.notify_one();
    }
}

impl ClientEnd {
    /// Makes bytes available to the server (one "segment").
    pub fn send(&self, bytes: &[u8]) {
        let mut s = lock(&self.shared);
        s.c2s.extend(bytes.iter().copied());
        s.c2s_total_sent += bytes.len();
        if let Some(w) = s.server_read_waker.take() {
            w.wake();
        }
    }

    /// Client half-close: the server sees EOF after the queued bytes.
    pub fn close(&self) {
        let mut s = lock(&self.shared);
        s.c2s_eof = true;
        if let Some(w) = s.server_read_waker.take() {
            w.wake();
        }
    }

    /// Bytes the server wrote since the last call.
    pub fn take_received(&self) -> Vec<u8> {
        let mut s = lock(&self.shared);
        let out = s.s2c[s.s2c_taken..].to_vec();
        s.s2c_taken = s.s2c.len();
        out
    }

    pub fn server_closed(&self) -> bool {
        lock(&self.shared).server_closed
    }

    /// Waits until the server wrote something new or closed.
    pub async fn wait_event(&self) {
        loop {
            let notified = self.notify.notified();
            {
                let s = lock(&self.shared);
                if s.s2c.len() > s.s2c_taken || s.server_closed {
                    return;
                }
            }
            notified.await;
        }
    }

    /// Everything the server ever wrote (accepted by the transport).
    pub fn all_clientbound(&self) -> Vec<u8> {
        lock(&self.shared).s2c.clone()
    }

    pub fn stats(&self) -> NetStats {
        let s = lock(&self.shared);
        NetStats {
            sent_by_client: s.c2s_total_sent,
            read_by_server: s.c2s_total_read,
            written_by_server: s.s2c.len(),
            read_polls: s.read_polls,
            write_polls: s.write_polls,
            polls_after_eof: s.polls_after_eof,
            eof_spin: s.eof_spin,
            server_closed: s.server_closed,
        }
    }

    pub fn io_log(&self) -> Vec<IoEvent> {
        lock(&self.shared).log.clone()
    }
}

#[derive(Clone, Debug, Default)]
pub struct NetStats {
    pub sent_by_client: usize,
    pub read_by_server: usize,
    pub written_by_server: usize,
    pub read_polls: usize,
    pub write_polls: usize,
    pub polls_after_eof: usize,
    pub eof_spin: bool,
    pub server_closed: bool,
}
