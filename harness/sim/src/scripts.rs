//! Standard client scripts shared by the monitors that are not in vp-conn.

use crate::client::{Act, ClientPlan, Echo, EncVariant, Out, SegPlan};
use std::time::Duration;
use vp_common::refcodec::{Phase, Pkt};

#[derive(Clone, Debug, PartialEq)]
pub struct Ident {
    pub name: String,
    pub uuid: u128,
}

pub fn uuid_string(u: u128) -> String {
    let h = format!("{u:032x}");
    format!("{}-{}-{}-{}-{}", &h[0..8], &h[8..12], &h[12..16], &h[16..20], &h[20..32])
}

pub fn parse_uuid(s: &str) -> Option<u128> {
    let h: String = s.chars().filter(|c| *c != '-').collect();
    if h.len() != 32 {
        return None;
    }
    u128::from_str_radix(&h, 16).ok()
}

pub fn client_information(locale: &str) -> Pkt {
    Pkt::ClientInformation {
        locale: locale.to_string(),
        view_distance: 10,
        chat_mode: 0,
        chat_colors: true,
        skin_parts: 0x7f,
        main_hand: 1,
        text_filtering: false,
        allow_listing: true,
        particle_status: 0,
    }
}

pub fn send(label: &str, p: Pkt) -> Act {
    Act::Send { label: label.to_string(), out: Out::Pkt(p) }
}

/// next_state: 1 status, 2 login, 3 transfer
pub fn handshake(next_state: i32, address: &str, port: u16, protocol: i32) -> Pkt {
    Pkt::Handshake { protocol, address: address.to_string(), port, next_state }
}

pub fn status_script(address: &str, port: u16, ping: u64) -> Vec<Act> {
    vec![
        send("Handshake", handshake(1, address, port, 770)),
        send("StatusRequest", Pkt::StatusRequest),
        Act::AwaitPkt { name: "StatusResponse", nth: 1 },
        send("StatusPing", Pkt::StatusPing { payload: ping }),
        Act::AwaitPkt { name: "StatusPong", nth: 1 },
        Act::AwaitClose,
    ]
}

pub fn login_script(next_state: i32, address: &str, port: u16, claimed: &Ident, locale: &str) -> Vec<Act> {
    vec![
        send("Handshake", handshake(next_state, address, port, 770)),
        send("LoginStart", Pkt::LoginStart { name: claimed.name.clone(), uuid: claimed.uuid }),
        Act::AwaitPkt { name: "EncryptionRequest", nth: 1 },
        Act::EncryptionResponse,
        Act::AwaitPkt { name: "LoginSuccess", nth: 1 },
        send("LoginAcknowledged", Pkt::LoginAcknowledged),
        send("ClientInformation", client_information(locale)),
        Act::AwaitClose,
    ]
}

pub fn plan(script: Vec<Act>, status: bool, secret: [u8; 16], deadline: Duration) -> ClientPlan {
    ClientPlan {
        script,
        cookies: vec![],
        cookie_answers: vec![],
        echo: Echo::After(Duration::ZERO),
        enc: EncVariant::Honest,
        secret,
        seg: SegPlan::default(),
        deadline,
        after_handshake: if status { Phase::Status } else { Phase::Login },
    }
}
