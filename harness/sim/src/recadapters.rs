//! Recording implementations of the six adapter traits. Every call is appended to one shared log
//! with its (cloned) arguments and the virtual time; outcomes and virtual latencies are scripted by
//! the scenario, so wiring mistakes cannot hide behind adapters that "do the right thing anyway".

use passage_adapters::authentication::{AuthenticationAdapter, Profile};
use passage_adapters::discovery::DiscoveryAdapter;
use passage_adapters::filter::FilterAdapter;
use passage_adapters::localization::LocalizationAdapter;
use passage_adapters::status::StatusAdapter;
use passage_adapters::strategy::StrategyAdapter;
use passage_adapters::{Error, Protocol, Result, ServerStatus, Target};
use std::net::SocketAddr;
use std::sync::{Arc, Mutex};
use std::time::Duration;
use uuid::Uuid;

#[derive(Clone, Debug, PartialEq)]
pub struct TargetRec {
    pub identifier: String,
    pub address: SocketAddr,
    pub meta: Vec<(String, String)>,
}

impl From<&Target> for TargetRec {
    fn from(t: &Target) -> Self {
        let mut meta: Vec<(String, String)> = t.meta.iter().map(|(k, v)| (k.clone(), v.clone())).collect();
        meta.sort();
        TargetRec { identifier: t.identifier.clone(), address: t.address, meta }
    }
}

impl TargetRec {
    pub fn to_target(&self) -> Target {
        Target {
            identifier: self.identifier.clone(),
            address: self.address,
            meta: self.meta.iter().cloned().collect(),
        }
    }
}

#[derive(Clone, Debug, PartialEq)]
pub struct CallCtx {
    pub client_addr: SocketAddr,
    pub server_addr: (String, u16),
    pub protocol: Protocol,
}

#[derive(Clone, Debug, PartialEq)]
pub enum Call {
    Status { ctx: CallCtx },
    Authenticate { ctx: CallCtx, user: (String, Uuid), shared_secret: Vec<u8>, encoded_public: Vec<u8> },
    Discover,
    Filter { ctx: CallCtx, user: (String, Uuid), targets: Vec<TargetRec> },
    Select { ctx: CallCtx, user: (String, Uuid), targets: Vec<TargetRec> },
    Localize { locale: Option<String>, key: String, params: Vec<(String, String)> },
}

impl Call {
    pub fn name(&self) -> &'static str {
        match self {
            Call::Status { .. } => "status",
            Call::Authenticate { .. } => "authenticate",
            Call::Discover => "discover",
            Call::Filter { .. } => "filter",
            Call::Select { .. } => "select",
            Call::Localize { .. } => "localize",
        }
    }
}

#[derive(Clone, Debug, PartialEq)]
pub struct CallRecord {
    /// virtual nanoseconds since the log was created
    pub t_ns: u64,
    /// virtual time at which the scripted outcome was handed back (None: dropped before / never)
    pub done_ns: Option<u64>,
    pub call: Call,
}

#[derive(Clone, Debug)]
pub enum Outcome<T> {
    Ok(T),
    Err,
    /// the future never completes
    Never,
}

#[derive(Clone, Debug)]
pub enum FilterScript {
    /// return the input unchanged
    Identity,
    /// keep the elements at these input positions, in this order (positions beyond the input are skipped)
    Positions(Vec<usize>),
    /// return exactly this list, whatever the input
    Fixed(Vec<TargetRec>),
    Err,
    Never,
}

#[derive(Clone, Debug)]
pub enum StrategyScript {
    /// choose the input element at this position (modulo the input length); None if the input is empty
    Position(usize),
    /// return exactly this, whatever the input
    Fixed(Option<TargetRec>),
    Err,
    Never,
}

#[derive(Clone, Debug)]
pub enum LocalizeScript {
    /// `{"text":"<key>|<locale or ->"}`-style answers that identify the question asked
    Echo { as_object: bool },
    /// delegate to the repository's FixedLocalizationAdapter built from this table
    Table { default_locale: String, messages: Vec<(String, Vec<(String, String)>)> },
    Err,
}

#[derive(Clone, Debug)]
pub struct AdapterScript {
    pub status: Outcome<Option<ServerStatus>>,
    pub status_latency: Duration,
    /// the status adapter panics (after its latency) when asked about this host: a bug in one
    /// connection's handling must stay that connection's problem
    pub status_panics_for: Option<String>,
    pub auth: Outcome<Profile>,
    pub auth_latency: Duration,
    pub discovery: Outcome<Vec<TargetRec>>,
    pub discovery_latency: Duration,
    pub filter: FilterScript,
    pub filter_latency: Duration,
    pub strategy: StrategyScript,
    pub strategy_latency: Duration,
    pub localize: LocalizeScript,
    /// which kind of `passage_adapters::Error` a scripted failure is reported as (mod 4)
    pub error_kind: u8,
}

impl Default for AdapterScript {
    fn default() -> Self {
        AdapterScript {
            status: Outcome::Ok(None),
            status_latency: Duration::ZERO,
            status_panics_for: None,
            auth: Outcome::Err,
            auth_latency: Duration::ZERO,
            discovery: Outcome::Ok(vec![]),
            discovery_latency: Duration::ZERO,
            filter: FilterScript::Identity,
            filter_latency: Duration::ZERO,
            strategy: StrategyScript::Position(0),
            strategy_latency: Duration::ZERO,
            localize: LocalizeScript::Echo { as_object: true },
            error_kind: 0,
        }
    }
}

pub type CallLog = Arc<Mutex<Vec<CallRecord>>>;

#[derive(Clone)]
pub struct Rec {
    pub script: Arc<AdapterScript>,
    pub log: CallLog,
    start: tokio::time::Instant,
    fixed_localization: Option<Arc<passage_adapters::FixedLocalizationAdapter>>,
}

impl std::fmt::Debug for Rec {
    fn fmt(&self, f: &mut std::fmt::Formatter<'_>) -> std::fmt::Result {
        write!(f, "Rec")
    }
}

/// A failure is a failure, whichever kind the service reports.
fn scripted_error(kind: u8) -> Error {
    let cause = || -> Box<dyn std::error::Error + Send + Sync> { "scripted failure (verification harness)".into() };
    match kind % 4 {
        0 => Error::AdapterUnavailable { adapter_type: "verif-recording", reason: "scripted failure" },
        1 => Error::FailedFetch { adapter_type: "verif-recording", cause: cause() },
        2 => Error::FailedParse { adapter_type: "verif-recording", cause: cause() },
        _ => Error::FailedInitialization { adapter_type: "verif-recording", cause: cause() },
    }
}

impl Rec {
    /// Must be created inside the runtime whose (virtual) clock stamps the records.
    pub fn new(script: AdapterScript) -> Rec {
        let fixed_localization = match &script.localize {
            LocalizeScript::Table { default_locale, messages } => {
                let map = messages
                    .iter()
                    .map(|(loc, msgs)| (loc.clone(), msgs.iter().cloned().collect()))
                    .collect();
                Some(Arc::new(passage_adapters::FixedLocalizationAdapter::new(default_locale.clone(), map)))
            }
            _ => None,
        };
        Rec {
            script: Arc::new(script),
            log: Arc::new(Mutex::new(Vec::new())),
            start: tokio::time::Instant::now(),
            fixed_localization,
        }
    }

    fn now(&self) -> u64 {
        tokio::time::Instant::now().saturating_duration_since(self.start).as_nanos() as u64
    }

    fn begin(&self, call: Call) -> usize {
        let mut log = self.log.lock().unwrap_or_else(|e| e.into_inner());
        log.push(CallRecord { t_ns: self.now(), done_ns: None, call });
        log.len() - 1
    }

    fn done(&self, idx: usize) {
        let t = self.now();
        let mut log = self.log.lock().unwrap_or_else(|e| e.into_inner());
        if let Some(r) = log.get_mut(idx) {
            r.done_ns = Some(t);
        }
    }

    pub fn calls(&self) -> Vec<CallRecord> {
        self.log.lock().unwrap_or_else(|e| e.into_inner()).clone()
    }

    async fn wait(&self, latency: Duration) {
        if !latency.is_zero() {
            tokio::time::sleep(latency).await;
        }
    }
}

fn ctx(client_addr: &SocketAddr, server_addr: (&str, u16), protocol: Protocol) -> CallCtx {
    CallCtx { client_addr: *client_addr, server_addr: (server_addr.0.to_string(), server_addr.1), protocol }
}

impl StatusAdapter for Rec {
    async fn status(&self, client_addr: &SocketAddr, server_addr: (&str, u16), protocol: Protocol) -> Result<Option<ServerStatus>> {
        let idx = self.begin(Call::Status { ctx: ctx(client_addr, server_addr, protocol) });
        self.wait(self.script.status_latency).await;
        if self.script.status_panics_for.as_deref() == Some(server_addr.0) {
            panic!("scripted panic in the status adapter (verification harness)");
        }
        let out = match &self.script.status {
            Outcome::Ok(v) => Ok(v.clone()),
            Outcome::Err => Err(scripted_error(self.script.error_kind)),
            Outcome::Never => std::future::pending().await,
        };
        self.done(idx);
        out
    }
}

impl AuthenticationAdapter for Rec {
    async fn authenticate(
        &self,
        client_addr: &SocketAddr,
        server_addr: (&str, u16),
        protocol: Protocol,
        user: (&str, &Uuid),
        shared_secret: &[u8],
        encoded_public: &[u8],
    ) -> Result<Profile> {
        let idx = self.begin(Call::Authenticate {
            ctx: ctx(client_addr, server_addr, protocol),
            user: (user.0.to_string(), *user.1),
            shared_secret: shared_secret.to_vec(),
            encoded_public: encoded_public.to_vec(),
        });
        self.wait(self.script.auth_latency).await;
        let out = match &self.script.auth {
            Outcome::Ok(v) => Ok(v.clone()),
            Outcome::Err => Err(scripted_error(self.script.error_kind)),
            Outcome::Never => std::future::pending().await,
        };
        self.done(idx);
        out
    }
}

impl DiscoveryAdapter for Rec {
    async fn discover(&self) -> Result<Vec<Target>> {
        let idx = self.begin(Call::Discover);
        self.wait(self.script.discovery_latency).await;
        let out = match &self.script.discovery {
            Outcome::Ok(v) => Ok(v.iter().map(|t| t.to_target()).collect()),
            Outcome::Err => Err(scripted_error(self.script.error_kind)),
            Outcome::Never => std::future::pending().await,
        };
        self.done(idx);
        out
    }
}

impl FilterAdapter for Rec {
    async fn filter(
        &self,
        client_addr: &SocketAddr,
        server_addr: (&str, u16),
        protocol: Protocol,
        user: (&str, &Uuid),
        targets: Vec<Target>,
    ) -> Result<Vec<Target>> {
        let idx = self.begin(Call::Filter {
            ctx: ctx(client_addr, server_addr, protocol),
            user: (user.0.to_string(), *user.1),
            targets: targets.iter().map(TargetRec::from).collect(),
        });
        self.wait(self.script.filter_latency).await;
        let out = match &self.script.filter {
            FilterScript::Identity => Ok(targets),
            FilterScript::Positions(p) => Ok(p.iter().filter_map(|i| targets.get(*i).cloned()).collect()),
            FilterScript::Fixed(v) => Ok(v.iter().map(|t| t.to_target()).collect()),
            FilterScript::Err => Err(scripted_error(self.script.error_kind)),
            FilterScript::Never => std::future::pending().await,
        };
        self.done(idx);
        out
    }
}

impl StrategyAdapter for Rec {
    async fn select(
        &self,
        client_addr: &SocketAddr,
        server_addr: (&str, u16),
        protocol: Protocol,
        user: (&str, &Uuid),
        targets: Vec<Target>,
    ) -> Result<Option<Target>> {
        let idx = self.begin(Call::Select {
            ctx: ctx(client_addr, server_addr, protocol),
            user: (user.0.to_string(), *user.1),
            targets: targets.iter().map(TargetRec::from).collect(),
        });
        self.wait(self.script.strategy_latency).await;
        let out = match &self.script.strategy {
            StrategyScript::Position(p) => {
                if targets.is_empty() {
                    Ok(None)
                } else {
                    Ok(Some(targets[p % targets.len()].clone()))
                }
            }
            StrategyScript::Fixed(v) => Ok(v.as_ref().map(|t| t.to_target())),
            StrategyScript::Err => Err(scripted_error(self.script.error_kind)),
            StrategyScript::Never => std::future::pending().await,
        };
        self.done(idx);
        out
    }
}

/// The text the echoing localization returns for (locale, key).
pub fn echo_text(locale: Option<&str>, key: &str, as_object: bool) -> String {
    let loc = locale.unwrap_or("-");
    if as_object {
        serde_json::json!({ "text": format!("{key}|{loc}"), "color": "red" }).to_string()
    } else {
        format!("{key}|{loc}")
    }
}

impl LocalizationAdapter for Rec {
    async fn localize(&self, locale: Option<&str>, key: &str, params: &[(&'static str, String)]) -> Result<String> {
        let idx = self.begin(Call::Localize {
            locale: locale.map(|s| s.to_string()),
            key: key.to_string(),
            params: params.iter().map(|(k, v)| (k.to_string(), v.clone())).collect(),
        });
        let out = match &self.script.localize {
            LocalizeScript::Echo { as_object } => Ok(echo_text(locale, key, *as_object)),
            LocalizeScript::Table { .. } => match &self.fixed_localization {
                Some(fixed) => fixed.localize(locale, key, params).await,
                None => Err(scripted_error(self.script.error_kind)),
            },
            LocalizeScript::Err => Err(scripted_error(self.script.error_kind)),
        };
        self.done(idx);
        out
    }
}
