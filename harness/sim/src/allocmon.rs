//! Counting allocator: forwards every request unchanged to the system allocator and, only while
//! the current thread's tracking flag is set (a future wrapper sets it around each poll of the
//! server future), records the largest single request and the total requested. Const-initialised
//! thread-locals; nothing is allocated inside the allocator.
//!
//! Declare in the binary: `#[global_allocator] static A: vp_sim::allocmon::CountingAlloc = CountingAlloc;`

use std::alloc::{GlobalAlloc, Layout, System};
use std::cell::Cell;
use std::future::Future;
use std::pin::Pin;
use std::task::{Context, Poll};

pub struct CountingAlloc;

thread_local! {
    static TRACKING: Cell<bool> = const { Cell::new(false) };
    static MAX_SINGLE: Cell<usize> = const { Cell::new(0) };
    static TOTAL: Cell<usize> = const { Cell::new(0) };
    static COUNT: Cell<usize> = const { Cell::new(0) };
}

#[inline]
fn note(size: usize) {
    // try_with: the allocator may be called during thread teardown
    let _ = TRACKING.try_with(|t| {
        if t.get() {
            let _ = MAX_SINGLE.try_with(|m| {
                if size > m.get() {
                    m.set(size)
                }
            });
            let _ = TOTAL.try_with(|m| m.set(m.get().saturating_add(size)));
            let _ = COUNT.try_with(|m| m.set(m.get() + 1));
        }
    });
}

unsafe impl GlobalAlloc for CountingAlloc {
    unsafe fn alloc(&self, layout: Layout) -> *mut u8 {
        note(layout.size());
        unsafe { System.alloc(layout) }
    }
    unsafe fn dealloc(&self, ptr: *mut u8, layout: Layout) {
        unsafe { System.dealloc(ptr, layout) }
    }
    unsafe fn alloc_zeroed(&self, layout: Layout) -> *mut u8 {
        note(layout.size());
        unsafe { System.alloc_zeroed(layout) }
    }
    unsafe fn realloc(&self, ptr: *mut u8, layout: Layout, new_size: usize) -> *mut u8 {
        note(new_size);
        unsafe { System.realloc(ptr, layout, new_size) }
    }
}

#[derive(Clone, Copy, Debug, Default)]
pub struct AllocStats {
    pub max_single: usize,
    pub total: usize,
    pub count: usize,
}

pub fn reset() {
    MAX_SINGLE.with(|m| m.set(0));
    TOTAL.with(|m| m.set(0));
    COUNT.with(|m| m.set(0));
}

pub fn stats() -> AllocStats {
    AllocStats { max_single: MAX_SINGLE.with(|m| m.get()), total: TOTAL.with(|m| m.get()), count: COUNT.with(|m| m.get()) }
}

/// Wraps a future so that allocations made while it is being polled are attributed to it.
pub struct Tracked<F> {
    inner: Pin<Box<F>>,
}

impl<F: Future> Tracked<F> {
    pub fn new(f: F) -> Self {
        Tracked { inner: Box::pin(f) }
    }
}

impl<F: Future> Future for Tracked<F> {
    type Output = F::Output;
    fn poll(mut self: Pin<&mut Self>, cx: &mut Context<'_>) -> Poll<F::Output> {
        struct Guard(bool);
        impl Drop for Guard {
            fn drop(&mut self) {
                TRACKING.with(|t| t.set(self.0));
            }
        }
        let prev = TRACKING.with(|t| t.replace(true));
        let _g = Guard(prev);
        self.inner.as_mut().poll(cx)
    }
}
