//! Scripted + reactive Minecraft reference client on top of the independent codec and cipher.
//!
//! The main line of a connection is an explicit script (`Act`s); two things are reactive because a
//! real client does them whenever the server asks: answering Cookie Requests and echoing Keep
//! Alives (both governed by the plan, both overridable). Every clientbound frame is decoded with
//! the independent codec (decrypted with the independent CFB8 once the client has sent its secret)
//! and logged with its virtual timestamp; every sent frame is logged too.

use crate::simnet::ClientEnd;
use rand::rngs::SysRng;
use rsa::pkcs8::DecodePublicKey;
use rsa::rand_core::UnwrapErr;
use rsa::{Pkcs1v15Encrypt, RsaPrivateKey, RsaPublicKey};
use std::future::Future;
use std::sync::{LazyLock, Mutex};
use std::time::Duration;
use tokio::time::Instant;
use vp_common::refcodec::{self, Dir, Phase, Pkt};
use vp_common::refcrypto::Cfb8;

pub trait Transport {
    fn send(&self, bytes: &[u8]);
    fn close(&self);
    fn take_received(&self) -> Vec<u8>;
    fn server_closed(&self) -> bool;
    fn wait_event(&self) -> impl Future<Output = ()> + Send;
}

impl Transport for ClientEnd {
    fn send(&self, bytes: &[u8]) {
        ClientEnd::send(self, bytes)
    }
    fn close(&self) {
        ClientEnd::close(self)
    }
    fn take_received(&self) -> Vec<u8> {
        ClientEnd::take_received(self)
    }
    fn server_closed(&self) -> bool {
        ClientEnd::server_closed(self)
    }
    fn wait_event(&self) -> impl Future<Output = ()> + Send {
        ClientEnd::wait_event(self)
    }
}

/// What the client puts into its Encryption Response.
#[derive(Clone, Debug, PartialEq)]
pub enum EncVariant {
    /// secret and the verify token of *this* connection, both encrypted to the server key
    Honest,
    /// the given token bytes (not this connection's), encrypted to the server key
    WrongToken(Vec<u8>),
    /// a token issued on an earlier connection of this process, encrypted to the server key
    StaleToken,
    /// this connection's token with one bit flipped
    FlippedToken,
    /// both fields encrypted to a different RSA key
    OtherKey,
    /// raw bytes that are no RSA ciphertexts
    Raw { secret: Vec<u8>, token: Vec<u8> },
    /// a secret of this many bytes (≠ 16), correctly encrypted, honest token
    SecretLen(usize),
    /// the secret honestly encrypted, the verify token of this connection sent back as it came: in
    /// the clear (anybody who saw the Encryption Request can do that, no key needed)
    ClearToken,
    /// the token honestly encrypted, the shared secret in the clear
    ClearSecret,
}

impl EncVariant {
    pub fn is_honest(&self) -> bool {
        matches!(self, EncVariant::Honest)
    }
    pub fn label(&self) -> String {
        match self {
            EncVariant::Honest => "honest".into(),
            EncVariant::WrongToken(t) => format!("wrong-token-{}", t.len()),
            EncVariant::StaleToken => "stale-token".into(),
            EncVariant::FlippedToken => "flipped-token".into(),
            EncVariant::OtherKey => "other-key".into(),
            EncVariant::Raw { secret, token } => format!("raw-{}-{}", secret.len(), token.len()),
            EncVariant::SecretLen(n) => format!("secret-len-{n}"),
            EncVariant::ClearToken => "clear-token".into(),
            EncVariant::ClearSecret => "clear-secret".into(),
        }
    }
}

#[derive(Clone, Debug, PartialEq)]
pub enum Out {
    /// a packet, framed by the reference codec
    Pkt(Pkt),
    /// a complete frame given as bytes (encrypted like any frame if encryption is on)
    Frame(Vec<u8>),
    /// bytes put on the wire as they are (never encrypted)
    Wire(Vec<u8>),
}

#[derive(Clone, Debug, PartialEq)]
pub enum Act {
    Send { label: String, out: Out },
    /// computes the Encryption Response from the received request per `plan.enc`, sends it and
    /// switches both directions to CFB8 under `plan.secret`
    EncryptionResponse,
    /// like EncryptionResponse, but sends the given frame instead of the computed one (the cipher
    /// is still switched on afterwards)
    EncryptionResponseOverride(Out),
    /// process incoming traffic until the `nth` (1-based) clientbound packet of this name was seen,
    /// the server closed, or the deadline passed
    AwaitPkt { name: &'static str, nth: usize },
    Sleep(Duration),
    /// sleep until this absolute (virtual) offset from the start of the connection
    SleepUntil(Duration),
    /// half-close the client side
    Close,
    /// process traffic until the server closes or the deadline passes
    AwaitClose,
}

#[derive(Clone, Debug, PartialEq)]
pub enum Echo {
    /// echo every Keep Alive after this delay (0 = at once)
    After(Duration),
    Never,
    /// echo with id + offset
    WrongId(u64),
    /// echo twice
    Duplicate,
    /// echo the first n promptly, then never
    StopAfter(usize),
    /// echo the first Keep Alive correctly, every later one with the id of its predecessor
    Previous,
}

#[derive(Clone, Debug, PartialEq)]
pub enum CookieAnswer {
    /// answer with the plan's payload for the requested key (absent key = no payload)
    Normal,
    /// send these instead
    Outs(Vec<Out>),
    /// do not answer
    Ignore,
    /// like Normal, but the client first lets this much *real* time pass (the wall clock moves,
    /// the virtual clock does not): for whatever the server decides by the wall clock
    NormalAfterReal(Duration),
}

/// How outgoing frames are cut into segments.
#[derive(Clone, Debug, Default, PartialEq)]
pub struct SegPlan {
    /// nth outgoing send (0-based over all sends) -> cut after these byte offsets, pausing between
    pub splits: Vec<(usize, Vec<(usize, Duration)>)>,
    /// deliver every byte of every frame separately with this pause
    pub byte_pause: Option<Duration>,
    /// like `splits`, for the (first) send with this label
    pub label_splits: Vec<(String, Vec<(usize, Duration)>)>,
}

#[derive(Clone, Debug)]
pub struct ClientPlan {
    pub script: Vec<Act>,
    /// payload presented per cookie key
    pub cookies: Vec<(String, Option<Vec<u8>>)>,
    /// answer to the nth (0-based) Cookie Request; beyond the list = Normal
    pub cookie_answers: Vec<CookieAnswer>,
    pub echo: Echo,
    pub enc: EncVariant,
    pub secret: [u8; 16],
    pub seg: SegPlan,
    /// virtual-time budget of the whole client
    pub deadline: Duration,
    /// decode clientbound traffic as this phase after the handshake (Status or Login)
    pub after_handshake: Phase,
}

#[derive(Clone, Debug, PartialEq)]
pub struct Sent {
    /// position in the client's total order of sends and receipts
    pub seq: u64,
    pub t_ns: u64,
    pub index: usize,
    pub label: String,
    /// plaintext bytes handed to the wire layer (frame or raw)
    pub plain: Vec<u8>,
    pub encrypted: bool,
}

#[derive(Clone, Debug, PartialEq)]
pub struct Received {
    /// position in the client's total order of sends and receipts
    pub seq: u64,
    pub t_ns: u64,
    pub phase: Phase,
    pub id: i32,
    pub pkt: Result<Pkt, String>,
    pub frame_len: usize,
}

#[derive(Clone, Debug, Default)]
pub struct ClientLog {
    pub sent: Vec<Sent>,
    pub received: Vec<Received>,
    /// clientbound bytes that could not be split into a frame (after decryption, if any)
    pub garbage: Option<(u64, Vec<u8>)>,
    /// bytes left over that are only the beginning of a frame when the connection ended
    pub incomplete_tail: usize,
    /// virtual time at which the client saw the server close
    pub server_closed_at_ns: Option<u64>,
    pub deadline_hit: bool,
    /// the verify token / key / flag of the Encryption Request, if one arrived
    pub enc_request: Option<(Vec<u8>, Vec<u8>, bool)>,
    pub finished_script: bool,
}

impl ClientLog {
    pub fn names(&self) -> Vec<&'static str> {
        self.received.iter().map(|r| r.pkt.as_ref().map(|p| p.name()).unwrap_or("Undecodable")).collect()
    }
    pub fn count(&self, name: &str) -> usize {
        self.names().iter().filter(|n| **n == name).count()
    }
    pub fn first(&self, name: &str) -> Option<&Received> {
        self.received.iter().find(|r| r.pkt.as_ref().map(|p| p.name() == name).unwrap_or(false))
    }
    pub fn all(&self, name: &str) -> Vec<&Received> {
        self.received.iter().filter(|r| r.pkt.as_ref().map(|p| p.name() == name).unwrap_or(false)).collect()
    }
}

static OTHER_KEY: LazyLock<RsaPrivateKey> =
    LazyLock::new(|| RsaPrivateKey::new(&mut UnwrapErr(SysRng), 1024).expect("rsa keygen"));
static PREVIOUS_TOKEN: Mutex<Option<Vec<u8>>> = Mutex::new(None);

pub fn rsa_encrypt_der(public_key_der: &[u8], data: &[u8]) -> Option<Vec<u8>> {
    let key = RsaPublicKey::from_public_key_der(public_key_der).ok()?;
    key.encrypt(&mut UnwrapErr(SysRng), Pkcs1v15Encrypt, data).ok()
}

struct Scheduled {
    at: Instant,
    label: String,
    out: Out,
}

pub struct Client<'a, T: Transport> {
    net: &'a T,
    plan: ClientPlan,
    start: Instant,
    deadline: Instant,
    enc_out: Option<Cfb8>,
    enc_in: Option<Cfb8>,
    rx: Vec<u8>,
    rx_broken: bool,
    phase: Phase,
    sends: usize,
    cookie_requests: usize,
    keep_alives: usize,
    last_keep_alive_id: Option<u64>,
    scheduled: Vec<Scheduled>,
    in_put: bool,
    seq: u64,
    pub log: ClientLog,
    max_frame: usize,
}

impl<'a, T: Transport> Client<'a, T> {
    pub fn new(net: &'a T, plan: ClientPlan) -> Self {
        let start = Instant::now();
        let deadline = start + plan.deadline;
        Client {
            net,
            phase: Phase::Handshake,
            plan,
            start,
            deadline,
            enc_out: None,
            enc_in: None,
            rx: Vec::new(),
            rx_broken: false,
            sends: 0,
            cookie_requests: 0,
            keep_alives: 0,
            last_keep_alive_id: None,
            scheduled: Vec::new(),
            in_put: false,
            seq: 0,
            log: ClientLog::default(),
            max_frame: 1 << 22,
        }
    }

    fn now_ns(&self) -> u64 {
        Instant::now().saturating_duration_since(self.start).as_nanos() as u64
    }

    /// Puts one logical send on the wire: encrypts (unless raw), then segments per the plan.
    async fn put(&mut self, label: &str, out: &Out) {
        let (plain, raw) = match out {
            Out::Pkt(p) => (p.frame(), false),
            Out::Frame(f) => (f.clone(), false),
            Out::Wire(w) => (w.clone(), true),
        };
        let index = self.sends;
        self.sends += 1;
        let encrypted = !raw && self.enc_out.is_some();
        self.seq += 1;
        self.log.sent.push(Sent { seq: self.seq, t_ns: self.now_ns(), index, label: label.to_string(), plain: plain.clone(), encrypted });
        if index == 0 && self.phase == Phase::Handshake {
            self.phase = self.plan.after_handshake;
        }
        let wire = match (&mut self.enc_out, raw) {
            (Some(c), false) => c.encrypt(&plain),
            _ => plain,
        };
        if wire.is_empty() {
            return;
        }
        // segmentation
        let mut cuts: Vec<(usize, Duration)> = vec![];
        if let Some(p) = self.plan.seg.byte_pause {
            cuts = (1..wire.len()).map(|o| (o, p)).collect();
        } else if let Some((_, c)) = self.plan.seg.label_splits.iter().find(|(l, _)| l == label) {
            cuts = c.iter().filter(|(o, _)| *o > 0 && *o < wire.len()).cloned().collect();
            cuts.sort_by_key(|c| c.0);
            cuts.dedup_by_key(|c| c.0);
        } else if let Some((_, c)) = self.plan.seg.splits.iter().find(|(i, _)| *i == index) {
            cuts = c.iter().filter(|(o, _)| *o > 0 && *o < wire.len()).cloned().collect();
            cuts.sort_by_key(|c| c.0);
            cuts.dedup_by_key(|c| c.0);
        }
        // while a frame is half-sent no other frame may start (a real client never interleaves)
        let was_in_put = std::mem::replace(&mut self.in_put, true);
        let mut pos = 0;
        for (off, pause) in cuts {
            self.net.send(&wire[pos..off]);
            pos = off;
            // keep reacting to the server while pausing inside a frame
            self.pump_for(pause).await;
        }
        self.net.send(&wire[pos..]);
        self.in_put = was_in_put;
    }

    fn drain(&mut self) {
        let bytes = self.net.take_received();
        if !bytes.is_empty() {
            let plain = match &mut self.enc_in {
                Some(c) => c.decrypt(&bytes),
                None => bytes,
            };
            self.rx.extend_from_slice(&plain);
        }
        while !self.rx_broken {
            match refcodec::split_frame(&self.rx, self.max_frame) {
                Ok(Some((id, body, used))) => {
                    let pkt = Pkt::decode(self.phase, Dir::Clientbound, id, &body).map_err(|e| format!("{e:?}"));
                    self.rx.drain(..used);
                    let t_ns = self.now_ns();
                    self.seq += 1;
                    self.log.received.push(Received { seq: self.seq, t_ns, phase: self.phase, id, pkt: pkt.clone(), frame_len: used });
                    if let Ok(p) = pkt {
                        self.react(p);
                    }
                }
                Ok(None) => break,
                Err(_) => {
                    self.rx_broken = true;
                    self.log.garbage = Some((self.now_ns(), self.rx.clone()));
                }
            }
        }
        if self.net.server_closed() && self.log.server_closed_at_ns.is_none() {
            self.log.server_closed_at_ns = Some(self.now_ns());
        }
    }

    fn react(&mut self, p: Pkt) {
        let now = Instant::now();
        match p {
            Pkt::LoginCookieRequest { key } => {
                let n = self.cookie_requests;
                self.cookie_requests += 1;
                let answer = self.plan.cookie_answers.get(n).cloned().unwrap_or(CookieAnswer::Normal);
                if let CookieAnswer::NormalAfterReal(d) = &answer {
                    std::thread::sleep(*d);
                }
                match answer {
                    CookieAnswer::Normal | CookieAnswer::NormalAfterReal(_) => {
                        let payload = self.plan.cookies.iter().find(|(k, _)| *k == key).and_then(|(_, p)| p.clone());
                        self.scheduled.push(Scheduled {
                            at: now,
                            label: format!("CookieResponse#{n}"),
                            out: Out::Pkt(Pkt::LoginCookieResponse { key, payload }),
                        });
                    }
                    CookieAnswer::Outs(outs) => {
                        for (i, out) in outs.into_iter().enumerate() {
                            self.scheduled.push(Scheduled { at: now, label: format!("CookieResponse#{n}.{i}"), out });
                        }
                    }
                    CookieAnswer::Ignore => {}
                }
            }
            Pkt::EncryptionRequest { public_key, verify_token, should_authenticate, .. } => {
                self.log.enc_request = Some((public_key, verify_token, should_authenticate));
            }
            Pkt::LoginSuccess { .. } => {
                self.phase = Phase::Config;
            }
            Pkt::ConfKeepAliveOut { id } => {
                let n = self.keep_alives;
                self.keep_alives += 1;
                let mut push = |at: Instant, id: u64, tag: &str| {
                    self.scheduled.push(Scheduled {
                        at,
                        label: format!("KeepAliveEcho#{n}{tag}"),
                        out: Out::Pkt(Pkt::ConfKeepAliveIn { id }),
                    })
                };
                match self.plan.echo.clone() {
                    Echo::After(d) => push(now + d, id, ""),
                    Echo::Never => {}
                    Echo::WrongId(off) => push(now, id.wrapping_add(off), "-wrong"),
                    Echo::Duplicate => {
                        push(now, id, "");
                        push(now, id, "-dup");
                    }
                    Echo::StopAfter(k) => {
                        if n < k {
                            push(now, id, "")
                        }
                    }
                    Echo::Previous => {
                        let prev = self.last_keep_alive_id.unwrap_or(id);
                        push(now, prev, if prev == id { "" } else { "-previous" })
                    }
                }
                self.last_keep_alive_id = Some(id);
            }
            _ => {}
        }
    }

    async fn fire_due(&mut self) {
        if self.in_put {
            return;
        }
        loop {
            let now = Instant::now();
            let Some(pos) = self.scheduled.iter().position(|s| s.at <= now) else { break };
            let s = self.scheduled.remove(pos);
            // nested pumping inside put() may fire further entries; that is fine
            Box::pin(self.put(&s.label, &s.out)).await;
        }
    }

    /// Processes traffic until `until` (or the deadline, or `stop` says so after a drain).
    async fn pump<F: FnMut(&ClientLog) -> bool>(&mut self, until: Option<Instant>, mut stop: F) {
        loop {
            self.drain();
            Box::pin(self.fire_due()).await;
            self.drain();
            if stop(&self.log) {
                return;
            }
            let now = Instant::now();
            if now >= self.deadline {
                self.log.deadline_hit = true;
                return;
            }
            if let Some(u) = until
                && now >= u
            {
                return;
            }
            if self.net.server_closed() && self.scheduled.is_empty() && until.is_none() {
                // nothing more can arrive
                self.drain();
                return;
            }
            let mut wake = self.deadline;
            if let Some(u) = until {
                wake = wake.min(u);
            }
            // scheduled sends cannot start while another frame is half-sent
            if !self.in_put
                && let Some(s) = self.scheduled.iter().map(|s| s.at).min()
            {
                wake = wake.min(s);
            }
            if self.net.server_closed() {
                tokio::time::sleep_until(wake).await;
            } else {
                tokio::select! {
                    _ = self.net.wait_event() => {},
                    _ = tokio::time::sleep_until(wake) => {},
                }
            }
        }
    }

    async fn pump_for(&mut self, d: Duration) {
        let until = Instant::now() + d;
        Box::pin(self.pump(Some(until), |_| false)).await;
    }

    fn encryption_response(&mut self) -> Option<Pkt> {
        let (key_der, token, _) = self.log.enc_request.clone()?;
        let prev = PREVIOUS_TOKEN.lock().unwrap_or_else(|e| e.into_inner()).replace(token.clone());
        let secret = self.plan.secret.to_vec();
        let enc = |d: &[u8]| rsa_encrypt_der(&key_der, d).unwrap_or_default();
        Some(match &self.plan.enc {
            EncVariant::Honest => Pkt::EncryptionResponse { shared_secret: enc(&secret), verify_token: enc(&token) },
            EncVariant::WrongToken(t) => Pkt::EncryptionResponse { shared_secret: enc(&secret), verify_token: enc(t) },
            EncVariant::StaleToken => {
                let stale = prev.filter(|p| *p != token).unwrap_or_else(|| vec![0x5a; 32]);
                Pkt::EncryptionResponse { shared_secret: enc(&secret), verify_token: enc(&stale) }
            }
            EncVariant::FlippedToken => {
                let mut t = token.clone();
                if let Some(b) = t.last_mut() {
                    *b ^= 1;
                }
                Pkt::EncryptionResponse { shared_secret: enc(&secret), verify_token: enc(&t) }
            }
            EncVariant::OtherKey => {
                let other = RsaPublicKey::from(&*OTHER_KEY);
                let e = |d: &[u8]| other.encrypt(&mut UnwrapErr(SysRng), Pkcs1v15Encrypt, d).unwrap_or_default();
                Pkt::EncryptionResponse { shared_secret: e(&secret), verify_token: e(&token) }
            }
            EncVariant::Raw { secret, token } => Pkt::EncryptionResponse { shared_secret: secret.clone(), verify_token: token.clone() },
            EncVariant::SecretLen(n) => {
                let s: Vec<u8> = (0..*n).map(|i| (i as u8).wrapping_mul(7).wrapping_add(3)).collect();
                Pkt::EncryptionResponse { shared_secret: enc(&s), verify_token: enc(&token) }
            }
            EncVariant::ClearToken => Pkt::EncryptionResponse { shared_secret: enc(&secret), verify_token: token.clone() },
            EncVariant::ClearSecret => Pkt::EncryptionResponse { shared_secret: secret.clone(), verify_token: enc(&token) },
        })
    }

    fn switch_cipher(&mut self) {
        self.enc_out = Some(Cfb8::minecraft(&self.plan.secret));
        self.enc_in = Some(Cfb8::minecraft(&self.plan.secret));
    }

    pub async fn run(mut self) -> ClientLog {
        let script = std::mem::take(&mut self.plan.script);
        let mut completed = true;
        for act in script {
            if Instant::now() >= self.deadline {
                self.log.deadline_hit = true;
                completed = false;
                break;
            }
            match act {
                Act::Send { label, out } => self.put(&label, &out).await,
                Act::EncryptionResponse => {
                    if let Some(p) = self.encryption_response() {
                        self.put("EncryptionResponse", &Out::Pkt(p)).await;
                        self.switch_cipher();
                    } else {
                        completed = false;
                        break;
                    }
                }
                Act::EncryptionResponseOverride(out) => {
                    self.put("EncryptionResponse*", &out).await;
                    self.switch_cipher();
                }
                Act::AwaitPkt { name, nth } => {
                    self.pump(None, |log| log.count(name) >= nth).await;
                    if self.log.count(name) < nth {
                        // the server closed or the deadline passed before the packet came
                        completed = false;
                        break;
                    }
                }
                Act::Sleep(d) => self.pump_for(d).await,
                Act::SleepUntil(off) => {
                    let until = self.start + off;
                    self.pump(Some(until), |_| false).await;
                }
                Act::Close => self.net.close(),
                Act::AwaitClose => {
                    self.pump(None, |_| false).await;
                }
            }
        }
        self.log.finished_script = completed;
        // always observe the end of the connection (bounded by the deadline)
        self.pump(None, |_| false).await;
        self.drain();
        self.log.incomplete_tail = if self.rx_broken { 0 } else { self.rx.len() };
        self.log
    }
}
