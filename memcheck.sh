#!/usr/bin/env bash
# Thorough-tier extra for the monitors whose workload is hostile bytes or runs through hardware
# back-ends Miri does not execute (AES-NI): the same monitor binary, same oracles, reduced workload,
# under valgrind memcheck (invalid reads/writes, use of uninitialised values, bad frees).
#   ./memcheck.sh <ID> <PKG>
# exit 0: held, or no verdict (INCONCLUSIVE sub-run: the native run already decided the property);
# exit 1: the oracles fired under memcheck, or memcheck reported an error with a passage frame.
set -u
ID=$1; PKG=$2
ROOT=$(cd "$(dirname "$0")" && pwd)
case "$ID" in
  C04) ARGS="--scale 0.04 --threads 1" ;;
  C05) ARGS="--scale 1 --threads 4" ;;
  C09) ARGS="--scale 0.2 --threads 4" ;;
  *) exit 0 ;;
esac
command -v valgrind >/dev/null || { echo "[$ID] INCONCLUSIVE (memcheck sub-run): valgrind not found"; exit 0; }
BIN="$ROOT/harness/target/verif/$PKG"
LOG="$ROOT/.run/memcheck-$ID.log"
OUT="$ROOT/.run/memcheck-$ID.out"
EV="$ROOT/.run/$ID-memcheck-evidence.json"
rm -f "$EV" "$LOG"
START=$(date +%s)
VERIF_WATCHDOG_SECS=2300 timeout 2400 valgrind --error-exitcode=9 --log-file="$LOG" --num-callers=30 "$BIN" --prop "$ID" --tier quick $ARGS \
  --seed "${VERIF_SEED:-1}" --evidence "$EV" --replays "$ROOT/replays" >"$OUT" 2>&1
RC=$?
SECS=$(( $(date +%s) - START ))
N=0; [ -f "$EV" ] && N=$(jq '.coverage.evaluations // 0' "$EV" 2>/dev/null || echo 0)
ERRS=$(grep -oE "ERROR SUMMARY: [0-9]+" "$LOG" 2>/dev/null | tail -1 | grep -oE "[0-9]+$" || echo "?")
note() {
  local f="$ROOT/evidence/$ID.json"
  [ -f "$f" ] && jq --arg o "$1" --argjson s "$SECS" --argjson n "${N:-0}" --arg e "$ERRS" \
     '.coverage.memcheck = {outcome: $o, wall_s: $s, evaluations_under_memcheck: $n, memcheck_errors: $e}' "$f" > "$f.tmp" && mv "$f.tmp" "$f"
}
case $RC in
  0) echo "[$ID] memcheck sub-run: the same oracles held on $N executions under valgrind memcheck, $ERRS memory errors (${SECS}s)"; note "held"; exit 0 ;;
  1) grep -E "VIOLATION|violated clause" "$OUT" | head -5; note "violation under memcheck"; exit 1 ;;
  9) if grep -qE "passage_|passage::" "$LOG"; then
       echo "[$ID] memcheck reported $ERRS memory error(s) with a passage frame on the stack (see $LOG)"
       echo "VIOLATION property=$ID replay=$LOG"
       note "memory error in passage code"; exit 1
     fi
     echo "[$ID] INCONCLUSIVE (memcheck sub-run): $ERRS memory error(s) reported without a passage frame (see $LOG)"; note "inconclusive: error outside passage code"; exit 0 ;;
  124) echo "[$ID] INCONCLUSIVE (memcheck sub-run): time budget exhausted after ${SECS}s"; note "inconclusive: timeout"; exit 0 ;;
  *) echo "[$ID] INCONCLUSIVE (memcheck sub-run): exit code $RC (see $OUT)"; tail -3 "$OUT"; note "inconclusive: exit $RC"; exit 0 ;;
esac
